#!/usr/bin/env python3
"""Prints the prompt given to a mutation sub-agent for one property (only the property text + a worktree)."""
import json, sys
pid = sys.argv[1]
wt = sys.argv[2]
out = sys.argv[3]
rec = None
for l in open('/verif/properties.jsonl'):
    r = json.loads(l)
    if r['id'] == pid:
        rec = r
print(f"""You are helping evaluate a verification effort for the C++ library alibaba/PhotonLibOS (a stackful-coroutine runtime with sync primitives, networking, RPC, filesystem and cache layers).

Your job: act as a careful "bug seeder". Produce TWO independent, realistic source changes to PhotonLibOS, each of which BREAKS the semantic property below while the library still COMPILES and the EXISTING TEST SUITE STILL PASSES. Each change must be accompanied by a demonstration (a small C++ program or gtest) that FAILS with the change applied and PASSES without it.

## The property (this is all you get about what is being verified)

```json
{json.dumps(rec, indent=1, ensure_ascii=False)}
```

## Your private scratch checkout

A git worktree of the repository is at `{wt}` (detached at the current HEAD). Work ONLY there. Do NOT read or touch `/verif` (you must stay independent of the existing checks), and do NOT modify `/repo`.

Build (about 3 minutes on 16 cores; other jobs share the machine, please use -j12 at most):
```
cd {wt}
cmake -G Ninja -S . -B _build -DCMAKE_BUILD_TYPE=RelWithDebInfo -DPHOTON_BUILD_TESTING=ON -DPHOTON_ENABLE_LIBCURL=ON -DPHOTON_GLOBAL_INIT_OPENSSL=ON -DPHOTON_CXX_STANDARD=14
ninja -C _build -j12
```
Run the existing suite (about 4 minutes) ALWAYS through the machine-wide lock, because the tests use fixed directories and ports and two suite runs at once make each other fail: `flock /tmp/mut/ctest.lock ctest --test-dir _build -j8 --timeout 900` (the same for single-test re-runs: `flock /tmp/mut/ctest.lock ctest --test-dir _build -R <name>`). Waiting for the lock can take a while; that is expected.
On the UNCHANGED tree exactly these 7 ctest entries fail in this sandbox (no network, no io_uring) and may be ignored: test-checksum, test-throttle, test-iouring, test-socket, test-ipv6, client_function_test, test-rpc-message. Everything else must still pass with your change (run the full suite at least once per final change; some tests are timing-sensitive under load — if an unrelated test fails once, re-run it alone with `ctest --test-dir _build -R <name>` before concluding). The sandbox has no network; nothing can be downloaded.

Your demonstration programs can link against `_build/output/libphoton.a` or `libphoton.so` (include path: `{wt}/include`; see how the tests under `*/test/CMakeLists.txt` are built; gtest/gflags are installed system-wide), or can be small standalone programs compiled with g++ directly, e.g.
`g++ -std=c++17 -O1 -g -I{wt}/include demo.cpp {wt}/_build/output/libphoton.a -lpthread -lssl -lcrypto -lcurl -lz -laio -lrt -ldl -o demo` (adjust as needed; check `ls _build/output`).

## What makes a good change

- REALISTIC: the kind of mistake a maintainer could make in a refactor or an optimisation (a dropped lock, a boundary condition, a wrong comparison, a reordered pair of statements, a missing re-check after a wake-up, an off-by-one, a state not restored on an error path, two cooperating sites that each look fine alone...). Not a blatant sabotage, not `if (x == 12345)` style magic constants, no dead code.
- SUBTLE: it must need something SPECIFIC to manifest — a particular interleaving, a timeout or fault at a particular point, a multi-step sequence of operations, an unusual input shape/size/boundary, or a particular configuration. Ordinary use (and the existing tests) must NOT expose it. Read the existing tests for the touched code to see what they cover, so that your change slips past them.
- It must genuinely violate the property's statement (not merely change performance or logging), and it must be in the library sources (not tests, not build files).
- The two changes should be different in nature and, if possible, touch different mechanisms named in the property's anchors.
- Small diffs (a few lines) are best.

## Deliverables (write them to `{out}/`)

For k = 1, 2:
- `patch{{k}}.diff` — `git diff` of the change against HEAD of the worktree (only library source changes).
- `demo{{k}}.cpp` (or a small directory `demo{{k}}/`) — the demonstration, plus `demo{{k}}.sh`, a shell script that builds and runs it against the worktree's current state and exits 0 when the property holds / non-zero when the violation shows (so: non-zero with the patch applied, 0 on the unchanged tree). If the failure is probabilistic, make the demo loop enough to be reliable and say so.
- `notes{{k}}.md` — what the change is, why it breaks the property, what exactly is needed for it to manifest, which existing tests you ran and their result (paste the ctest summary), and the demo's output with and without the patch.

When you finish, leave the worktree in its UNCHANGED state (`git checkout -- .`, patches only in `{out}/`) but keep the `_build` directory (it will be reused for confirmation). Report briefly what you produced. If you could only produce one good change, deliver one and say so; do not pad with a weak one.
""")
