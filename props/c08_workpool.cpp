// C08 — WorkPool under the controlled scheduler: every task runs exactly once, call() returns after its task,
// async task objects are deleted once after they ran, destruction waits for every accepted task.
//
// The pool is built with 0 own threads; lab vCPUs 1.. join it through join_current_vcpu_into_workpool() (the same
// main_loop the pool's own threads run), so the dispatch ring, the three thread modes, the awaiters and the
// destructor's stop markers all run under generated schedules.  Submitters: photon actors on vCPU 0 and plain
// OS-thread participants.  (Pools that own their threads run in c08_real.)
#include "lab_common.h"
#include <photon/thread/workerpool.h>

using namespace labc;

namespace {

enum { OP_CALL = 10, OP_ASYNC = 11, OP_JOIN = 12 };
// row: [op, body kind (0 none, 1 yield, 2 sleep, 3 burn), body arg, context (0 default: Photon for actors / Std for OS threads, 1 Auto)]

struct H;
H* g_h = nullptr;

struct Task {
    int id; long body, arg; bool is_async;
    int runs = 0; bool finished = false; int deleted = 0;
    bool accepted = false;
};

struct AsyncObj {
    Task* t;
    uint32_t magic = 0xA51C0B1E;
    explicit AsyncObj(Task* t) : t(t) {}
    void operator()();
    ~AsyncObj();
};

struct H {
    Common C;
    photon::WorkPool* pool = nullptr;
    int mode = -1; long ring = 4; int nworkers = 1; bool destroy_early = false;
    std::deque<Task> tasks;                   // stable addresses
    std::set<photon::vcpu_base*> worker_vcpus;
    int submitters_left = 0;
    bool destroying = false, destroyed = false;
    int running_now = 0;
    std::set<std::string> labels;
    bool nt = false;

    Task* new_task(const std::vector<long>& r, bool is_async) {
        tasks.push_back(Task{(int)tasks.size(), r.at(1), r.at(2), is_async});
        return &tasks.back();
    }
    void execute(Task* t) {
        auto& ctl = C.L.ctl;
        if (destroyed) ctl.violation("task " + std::to_string(t->id) + " started after the pool's destructor returned");
        if (++t->runs > 1) ctl.violation("task " + std::to_string(t->id) + " executed " + std::to_string(t->runs) + " times");
        if (!worker_vcpus.count(photon::get_vcpu())) ctl.violation("task " + std::to_string(t->id) + " ran on a vCPU that is not a worker of the pool");
        if (++running_now >= 2) { nt = true; labels.insert("tasks_overlapped"); }
        if (destroying) { nt = true; labels.insert("task_ran_during_destruction"); }
        switch (t->body) {
        case 1: for (long i = 0; i < 1 + t->arg % 3; i++) photon::thread_yield(); break;
        case 2: photon::thread_usleep((uint64_t)t->arg); break;
        case 3: ctl.vnow += (uint64_t)t->arg; ctl.clock_jumps++; break;
        default: break;
        }
        running_now--;
        if (destroyed) ctl.violation("task " + std::to_string(t->id) + " was still running after the pool's destructor returned");
        t->finished = true;
    }
    template <typename Ctx>
    void do_call(Task* t) {
        t->accepted = true;
        pool->call<Ctx>([this, t]() { execute(t); });
        auto& ctl = C.L.ctl;
        if (!t->finished) ctl.violation("call() returned before its task " + std::to_string(t->id) + " finished (runs=" + std::to_string(t->runs) + ")");
        if (t->runs != 1) ctl.violation("call() returned with its task " + std::to_string(t->id) + " executed " + std::to_string(t->runs) + " times");
    }
    void submit(bool os, const std::vector<long>& r) {
        bool is_async = r[0] == OP_ASYNC;
        Task* t = new_task(r, is_async);
        bool full_before = false;
        if (is_async) {
            t->accepted = true;
            pool->async_call(new AsyncObj(t));
            labels.insert(os ? "async_from_os_thread" : "async_from_photon");
        } else {
            bool autoctx = r.at(3) != 0;
            if (os) { if (autoctx) do_call<photon::AutoContext>(t); else do_call<photon::StdContext>(t); }
            else { if (autoctx) do_call<photon::AutoContext>(t); else do_call<photon::PhotonContext>(t); }
            labels.insert(os ? "call_from_os_thread" : "call_from_photon");
        }
        (void)full_before;
    }
    void run_op(int id, const std::vector<long>& r) {
        if (r[0] == OP_JOIN) {
            C.st[id].phase = "worker (joined the pool)";
            worker_vcpus.insert(photon::get_vcpu());
            int rc = pool->join_current_vcpu_into_workpool();
            if (rc != 0) C.L.ctl.violation("join_current_vcpu_into_workpool returned " + std::to_string(rc));
            if (!destroying) C.L.ctl.violation("a worker left the pool although nobody is destroying it");
            return;
        }
        C.st[id].phase = r[0] == OP_ASYNC ? "async_call" : "call"; C.st[id].phase_arg = (long)tasks.size();
        submit(false, r);
    }
    void submitter_done() { submitters_left--; }
    // run by actor 0 after its own program
    void destroy_pool(int id) {
        auto& ctl = C.L.ctl;
        C.st[id].phase = "waiting for the other submitters";
        while (submitters_left > 0 || pool->get_vcpu_num() < nworkers) photon::thread_usleep(37);
        if (!destroy_early) {
            C.st[id].phase = "waiting for every task to finish";
            for (;;) { bool all = true; for (auto& t : tasks) if (t.accepted && !t.finished) all = false; if (all) break; photon::thread_usleep(41); }
        } else {
            int unfinished = 0; for (auto& t : tasks) if (t.accepted && !t.finished) unfinished++;
            if (unfinished) { nt = true; labels.insert("destroyed_with_unfinished_tasks"); }
        }
        C.st[id].phase = "~WorkPool";
        destroying = true;
        delete pool;
        destroyed = true;
        pool = nullptr;
        for (auto& t : tasks) {
            if (!t.accepted) continue;
            if (t.runs != 1) ctl.violation("after ~WorkPool: task " + std::to_string(t.id) + " executed " + std::to_string(t.runs) + " times");
            else if (!t.finished) ctl.violation("after ~WorkPool: task " + std::to_string(t.id) + " has not finished");
            if (t.is_async && t.deleted != 1) ctl.violation("after ~WorkPool: async task object " + std::to_string(t.id) + " deleted " + std::to_string(t.deleted) + " times");
        }
    }
};

void AsyncObj::operator()() {
    if (magic != 0xA51C0B1E) g_h->C.L.ctl.violation("async task object used after its deletion");
    g_h->execute(t);
}
AsyncObj::~AsyncObj() {
    auto& ctl = g_h->C.L.ctl;
    if (magic != 0xA51C0B1E) ctl.violation("async task object deleted twice");
    magic = 0;
    if (++t->deleted > 1) ctl.violation("async task object " + std::to_string(t->id) + " deleted " + std::to_string(t->deleted) + " times");
    if (!t->finished) ctl.violation("async task object " + std::to_string(t->id) + " deleted before its task finished");
}

Outcome run_case(const Case& c) {
    H h; g_h = &h;
    h.mode = (int)c.cfg.at(5); h.ring = c.cfg.at(6); h.destroy_early = c.cfg.at(7) != 0;
    h.C.horizon_extra = 3000000;      // the ring channel's 100 ms fall-back waits are legal; give them room
    int n_os = (int)c.cfg.at(4);
    h.C.setup(c, [&](int id, const std::vector<long>& r) { h.run_op(id, r); },
              [&](int, const std::vector<long>& r) { h.submit(true, r); });
    auto& L = h.C.L;
    h.nworkers = L.nvcpu - 1;
    // wrap bodies: submitters report when they are done; actor 0 destroys the pool
    int nsub = 0;
    for (size_t i = 0; i < L.actors.size(); i++) {
        if (L.actors[i].vcpu != 0) continue;
        nsub++;
        auto inner = L.actors[i].body; int id = (int)i;
        L.actors[i].body = [&h, inner, id]() { while (!h.pool) photon::thread_yield(); inner(); h.submitter_done(); if (id == 0) { h.C.st[0].finished = false; h.destroy_pool(0); h.C.st[0].finished = true; } };
    }
    for (int k = 0; k < n_os; k++) {
        auto inner = L.os_threads[k];
        L.os_threads[k] = [&h, inner]() { while (!h.pool) h.C.L.ctl.sp(PHOTON_VERIF_SP_BUSYWAIT, nullptr); inner(); h.submitter_done(); };
    }
    h.submitters_left = nsub + n_os;
    L.vcpu_setup = [&](int v) { if (v == 0) h.pool = new photon::WorkPool(0, 0, 0, h.mode, (size_t)h.ring); else while (!h.pool) photon::thread_usleep(10); };
    auto& ctl = L.ctl;
    ctl.max_steps = 800000;
    ctl.on_quiescence = [&]() {
        std::ostringstream o; int lost = 0;
        for (auto& t : h.tasks) if (t.accepted && !t.finished) { lost++; o << " task" << t.id << (t.is_async ? "(async" : "(call") << ",runs=" << t.runs << ")"; }
        ctl.violation("no progress: " + std::to_string(lost) + " accepted task(s) never finished:" + o.str() + ";" + h.C.blocked_report());
    };
    L.run();
    Outcome& out = ctl.out;
    out.nontrivial = h.nt;
    for (auto& l : h.labels) out.label(l);
    out.label("mode:" + std::string(h.mode < 0 ? "inline" : h.mode == 0 ? "thread_per_task" : "pooled"));
    out.label("ring:" + std::to_string(h.ring));
    if ((long)h.tasks.size() > h.ring) { out.label("burst_larger_than_ring"); }
    L.stats_labels(out);
    return out;
}

rc::Gen<Case> gen_case(const vf::Options&) {
    return rc::gen::exec([]() {
        Case c;
        long nv = *rc::gen::weightedOneOf<long>({{3, rc::gen::just<long>(2)}, {2, rc::gen::just<long>(3)}});
        long nos = *rc::gen::weightedOneOf<long>({{2, rc::gen::just<long>(0)}, {2, rc::gen::just<long>(1)}, {1, rc::gen::just<long>(2)}});
        long mode = *vf::oneof<long>({-1, 0, 2});
        long ring = *rc::gen::weightedOneOf<long>({{3, rc::gen::just<long>(1)}, {3, rc::gen::just<long>(2)}, {2, rc::gen::just<long>(4)}, {1, rc::gen::just<long>(64)}});
        c.cfg = {nv, 0, 0, 0, nos, mode, ring, *vf::range(0, 1)};
        long nsub = *vf::range(1, 3);
        for (long i = 0; i < nsub; i++) c.S("actor").push_back({0, 0});
        for (long v = 1; v < nv; v++) c.S("actor").push_back({v, 0});
        auto gen_submit = [&]() {
            long op = *rc::gen::weightedOneOf<long>({{1, rc::gen::just<long>(OP_CALL)}, {1, rc::gen::just<long>(OP_ASYNC)}});
            long body = *rc::gen::weightedOneOf<long>({{3, rc::gen::just<long>(0)}, {3, rc::gen::just<long>(1)}, {3, rc::gen::just<long>(2)}, {1, rc::gen::just<long>(3)}});
            return std::vector<long>{op, body, body == 2 || body == 3 ? *rc::gen::weightedOneOf<long>({{3, vf::range(1, 60)}, {2, vf::range(61, 3000)}}) : *vf::range(0, 2), *vf::range(0, 1)};
        };
        for (long i = 0; i < nsub; i++) {
            long n = *vf::range(i == 0 ? 0 : 1, 5);
            auto& prog = c.S("a" + std::to_string(i));
            for (long k = 0; k < n; k++) {
                // (an interrupt aimed at another submitter may find it blocked inside call(): call() must still wait for its task)
                long kind = *rc::gen::weightedOneOf<long>({{8, rc::gen::just<long>(10)}, {1, rc::gen::just<long>(OP_YIELD)}, {1, rc::gen::just<long>(OP_SLEEP)}, {nsub > 1 ? 2 : 0, rc::gen::just<long>(OP_INT)}});
                if (kind == OP_INT) { prog.push_back({kind, *vf::range(0, nsub - 1), *vf::range(0, 2)}); continue; }
                if (kind == 10) prog.push_back(gen_submit());
                else if (kind == OP_SLEEP) prog.push_back({kind, *gen_duration()});
                else prog.push_back({kind});
            }
        }
        for (long v = 1; v < nv; v++) {
            auto& prog = c.S("a" + std::to_string(nsub + v - 1));
            // a worker may come late (the ring fills up before anybody serves it)
            long late = *rc::gen::weightedOneOf<long>({{3, rc::gen::just<long>(0)}, {1, vf::range(1, 2000)}});
            if (late) prog.push_back({OP_SLEEP, late});
            prog.push_back({OP_JOIN});
        }
        for (long k = 0; k < nos; k++) {
            long n = *vf::range(1, 4);
            for (long j = 0; j < n; j++) c.S("o" + std::to_string(k)).push_back(gen_submit());
        }
        c.S("sched") = *gen_schedule(50);
        return c;
    });
}

std::string opname(const std::vector<long>& r) {
    if (r[0] == OP_JOIN) return "join_pool_as_worker";
    std::ostringstream o;
    static const char* bk[] = {"none", "yield", "sleep", "burn"};
    o << (r[0] == OP_ASYNC ? "async_call" : "call") << (r[0] == OP_CALL && r[3] ? "<Auto>" : "") << "(" << bk[r[1] % 4] << " " << r[2] << ")";
    return o.str();
}
}  // namespace

int main(int argc, char** argv) {
    vf::Harness h;
    h.prop = "C08";
    h.gen = gen_case;
    h.run = run_case;
    h.desc = [](const Case& c) {
        return "thread_mode=" + std::to_string(c.cfg[5]) + " ring_size=" + std::to_string(c.cfg[6]) + " destroy=" + (c.cfg[7] ? "as soon as every submitter returned" : "after every task finished") +
               " (actor0 destroys the pool after its program; vCPU0 = submitters, other vCPUs = workers)\n" + describe_common(c, opname);
    };
    h.fork_per_case = true;
    h.persistent_child = true;
    return vf::pbt_main(argc, argv, h);
}
