// E2 "schedlab": the harness owns the schedule and the clock.
//
// Every vCPU OS thread and every plain OS thread of a case is a *participant*.  Exactly one
// participant runs at any time; the others are parked on a private semaphore.  At every schedule
// point compiled into the library (PHOTON_VERIF_SP) the running participant consults the generated
// schedule: keep going, hand the token to another participant, or advance the virtual clock.
// A busy-wait point must hand over.  photon::now is driven by a virtual clock (1 us per read).
// Each vCPU gets a LabEngine as master event engine: idling parks the participant until
// cancel_wait() or until virtual time reaches its deadline.
#pragma once
#include "pbt.h"
#include <photon/thread/thread.h>
#include <photon/thread/thread11.h>
#include <photon/io/fd-events.h>
#include <photon/common/alog.h>
#include <semaphore.h>
#include <sched.h>
#include <pthread.h>
#include <thread>
#include <atomic>

namespace lab {
using vf::Outcome;

enum { P_RUN = 0, P_IDLE = 1, P_DONE = 2, P_NEW = 3 };
static const uint64_t T0 = 1000000;              // virtual time starts at 1 s
static const uint64_t FOREVER = ~0ULL;

struct Action { int type; long arg; };           // type 0: switch to participant #arg (mod enabled), 1: advance clock by arg us

struct Controller {
    struct P { sem_t sem; int state = P_NEW; uint64_t deadline = 0; bool cancel = false; bool is_vcpu = false; };
    std::vector<P> p;
    int cur = -1;
    uint64_t vnow = T0;
    long step = 0, max_steps = 300000;
    uint64_t horizon = T0 + 5000000;             // beyond this, a pending deadline no longer keeps the case alive
    std::map<long, Action> schedule;             // step -> action
    long handoffs = 0, preemptions = 0, busy_handoffs = 0, clock_jumps = 0, idles = 0;
    long lonely_spins = 0, spin_advances = 0;
    long busy_streak = 0;                        // busy-wait hand-overs in a row without anybody blocking, finishing or waking someone
    long since_handoff = 0;                      // schedule points taken by the running participant since it got the token
    std::function<std::string()> on_deadlock;    // optional: extra state for the deadlock report
    std::function<void()> on_quiescence;         // called (token held) when nobody can run any more within the horizon
    Outcome out;                                 // labels collected so far; violation() finishes the case
    bool tracing = false;

    static Controller*& inst() { static Controller* c = nullptr; return c; }
    static int& my_id() { static thread_local int id = -1; return id; }

    void trace(const char* what, long a = 0, long b = 0) {
        if (tracing) fprintf(stderr, "[lab] step=%ld vnow=%llu me=%d %s %ld %ld\n", step, (unsigned long long)vnow, my_id(), what, a, b);
    }
    [[noreturn]] void finish(const Outcome& o) { vf::finish_now(o); }
    [[noreturn]] void violation(const std::string& msg) {
        out.status = Outcome::VIOLATION; out.msg = msg; finish(out);
    }
    [[noreturn]] void inconclusive(const std::string& why) {
        out.status = Outcome::INCONCLUSIVE; out.msg = why; finish(out);
    }
    void wake_expired() {
        for (auto& q : p) if (q.state == P_IDLE && q.deadline <= vnow) q.state = P_RUN;
    }
    int next_runnable(int me) {                  // round robin after me
        wake_expired();
        int n = (int)p.size();
        for (int k = 1; k <= n; k++) { int i = (me + k) % n; if (i != me && p[i].state == P_RUN) return i; }
        return -1;
    }
    void handoff(int me, int nx) {
        handoffs++;
        trace("handoff", me, nx);
        cur = nx;
        since_handoff = 0;
        sem_post(&p[nx].sem);
        while (sem_wait(&p[me].sem) < 0) {}
        cur = me;
        since_handoff = 0;
    }
    // nobody is runnable: let virtual time pass.  Returns the participant to run, or -1 at quiescence.
    int advance(int me) {
        int best = -1;
        for (int i = 0; i < (int)p.size(); i++)
            if (p[i].state == P_IDLE && (best < 0 || p[i].deadline < p[best].deadline)) best = i;
        if (best < 0) return -1;
        if (p[best].deadline > horizon) return -1;
        if (p[best].deadline > vnow) { vnow = p[best].deadline; clock_jumps++; }
        p[best].state = P_RUN;
        trace("advance->", best);
        return best;
    }
    [[noreturn]] void quiescence() {
        trace("quiescence");
        if (on_quiescence) on_quiescence();
        // on_quiescence normally finishes the case; if it returns, nothing was wrong but nothing can run
        out.label("ended_at_quiescence");
        finish(out);
    }
    // ---- called from the hooks
    void sp(int kind, const void*) {
        int me = my_id();
        if (me < 0) return;
        if (cur != me) return;               // defensive: only the token holder takes decisions
        if (++step > max_steps) inconclusive("step bound exceeded (livelock or very long case)");
        auto it = schedule.find(step);
        const Action* act = it == schedule.end() ? nullptr : &it->second;
        if (act && act->type == 1) { vnow += (uint64_t)act->arg; clock_jumps++; trace("adv", act->arg); }
        // A retry loop without a pause instruction (e.g. MPMC pop waiting for a ticket holder to publish) only
        // passes ordinary schedule points; after many of them in a row treat it as the busy-wait it is.
        if (++since_handoff > 300 && kind != PHOTON_VERIF_SP_BUSYWAIT && next_runnable(me) >= 0) kind = PHOTON_VERIF_SP_BUSYWAIT;
        if (since_handoff > 50) busy_streak = 0;   // this participant computes, it does not just spin
        if (kind == PHOTON_VERIF_SP_BUSYWAIT) {
            int nx = next_runnable(me);
            if (nx < 0) {
                nx = advance(me);
                if (nx < 0) {
                    // a participant spins while nobody else can ever run again
                    bool any_idle = false;
                    for (auto& q : p) if (q.state == P_IDLE) any_idle = true;
                    if (!any_idle) {
                        // spinning alone: legal for a few rounds (e.g. a loop that re-reads a flag the last
                        // finished participant has just set); a deadlock only if it never ends
                        if (++lonely_spins < 3000) return;
                        std::string st;
                        for (auto& q : p) st += std::to_string(q.state);
                        if (on_deadlock) st += " " + on_deadlock();
                        violation("deadlock: participant " + std::to_string(me) + " busy-waits forever while every other participant is finished (states " + st + ", 0=run 2=done)");
                    }
                    quiescence();
                }
            }
            // Everybody who can run only spins (e.g. OS threads retrying a full ring) while the ones they wait for
            // sleep in virtual time: spinning takes time, so let the clock reach the earliest deadline.
            if (++busy_streak > 4 * (long)p.size() + 8) {
                int b = advance(me);
                if (b >= 0) { nx = b; busy_streak = 0; spin_advances++; }
                else if (busy_streak > 5000) {
                    // thousands of hand-overs in a row in which every participant that can run only spins, nobody sleeps
                    // towards a deadline, blocks, finishes or wakes anybody: they wait for each other
                    std::string st;
                    for (auto& q : p) st += std::to_string(q.state);
                    if (on_deadlock) st += " " + on_deadlock();
                    violation("deadlock: every participant that can run busy-waits (" + std::to_string(busy_streak) + " hand-overs without anybody making progress; states " + st + ", 0=run 1=idle 2=done)");
                }
            }
            busy_handoffs++;
            if (nx != me) handoff(me, nx);
            return;
        }
        if (act && act->type == 0) {
            wake_expired();
            std::vector<int> en;
            for (int i = 0; i < (int)p.size(); i++) if (i != me && p[i].state == P_RUN) en.push_back(i);
            if (!en.empty()) { preemptions++; handoff(me, en[(size_t)act->arg % en.size()]); }
        }
    }
    uint64_t clock() { return ++vnow; }
    // ---- engine side
    void idle(int me, uint64_t timeout) {
        if (p[me].cancel) { p[me].cancel = false; return; }
        idles++; busy_streak = 0;
        p[me].state = P_IDLE;
        p[me].deadline = (timeout > FOREVER - vnow) ? FOREVER : vnow + timeout;
        int nx = next_runnable(me);
        if (nx < 0) nx = advance(me);
        if (nx < 0) quiescence();
        if (nx != me) handoff(me, nx);
        p[me].state = P_RUN;
        p[me].cancel = false;
    }
    void cancel(int k) {
        busy_streak = 0;
        p[k].cancel = true;
        if (p[k].state == P_IDLE) p[k].state = P_RUN;
    }
    void done(int me) {
        busy_streak = 0;
        p[me].state = P_DONE;
        int nx = next_runnable(me);
        if (nx < 0) nx = advance(me);
        if (nx < 0) {
            bool all_done = true;
            for (auto& q : p) if (q.state != P_DONE) all_done = false;
            if (all_done) return;            // the driver thread joins and runs the final oracle
            quiescence();
        }
        cur = nx;
        handoffs++;
        sem_post(&p[nx].sem);
    }
    // voluntary hand-over used by the start-up / tear-down barriers
    void pass(int me) {
        int nx = next_runnable(me);
        if (nx >= 0) handoff(me, nx);
    }
    void begin(int me) {                     // first thing a participant does
        my_id() = me;
        while (sem_wait(&p[me].sem) < 0) {}
        cur = me;
        p[me].state = P_RUN;
    }
};

extern "C" inline void lab_sp_hook(int kind, const void* addr) { Controller::inst()->sp(kind, addr); }
extern "C" inline uint64_t lab_clock_hook() { return Controller::inst()->clock(); }

class LabEngine : public photon::MasterEventEngine {
public:
    int me;
    explicit LabEngine(int id) : me(id) {}
    int wait_for_fd(int, uint32_t, photon::Timeout) override { errno = ENOSYS; return -1; }
    ssize_t wait_and_fire_events(uint64_t timeout) override {
        auto c = Controller::inst();
        if (timeout == 0) { c->p[me].cancel = false; return 0; }
        c->idle(me, timeout);
        return 0;
    }
    int cancel_wait() override { Controller::inst()->cancel(me); return 0; }
};

// --------------------------------------------------------------------------------------------
// Case skeleton: vCPUs with actors (photon threads), plain OS-thread participants, a schedule.
struct Lab {
    struct Actor { int vcpu; std::function<void()> body; bool stealable = false; uint64_t stack = 256 * 1024; };
    int nvcpu = 1;
    std::vector<int> vcpu_flags;                        // work-stealing flags per vCPU
    std::vector<Actor> actors;
    std::vector<std::function<void()>> os_threads;      // plain OS-thread participants
    std::function<void(int)> vcpu_setup, vcpu_teardown; // run in the vCPU's main photon thread
    Controller ctl;
    // filled by run()
    std::vector<photon::thread*> actor_th;
    std::vector<photon::thread*> main_th;
    std::vector<photon::vcpu_base*> vcpus;
    std::atomic<int> remaining{0};
    std::vector<char> finished;
    int arrived = 0, arrived2 = 0, arrived3 = 0;

    static Lab*& inst() { static Lab* l = nullptr; return l; }

    // schedule rows: [gap, type, arg]
    void set_schedule(const std::vector<std::vector<long>>& rows) {
        long at = 0;
        for (auto& r : rows) { if (r.size() < 3) continue; at += std::max<long>(1, r[0]); ctl.schedule[at] = Action{(int)r[1], r[2]}; }
    }
    bool all_actors_finished() const { return remaining.load() == 0; }
    void barrier(int me, int& counter, int total) {
        counter++;
        // the not-yet-started participants get the token through pass(); once everybody runs, wait by
        // sleeping in virtual time (a pure pass() loop would never let the clock advance)
        while (counter < total) { ctl.pass(me); if (counter < total) photon::thread_usleep(20); }
    }
    struct EntryArg { Lab* lab; int i; };
    std::vector<EntryArg> entry_args;
    static void* actor_tramp(void* a) { auto e = (EntryArg*)a; e->lab->actor_entry(e->i); return nullptr; }
    void actor_entry(int i) {
        actors[i].body();
        finished[i] = 1;
        if (--remaining == 0)
            for (auto* t : main_th) if (t && t != photon::CURRENT) photon::thread_interrupt(t, ECANCELED);
    }
    void vcpu_main(int v) {
        int me = v;
        ctl.begin(me);
        photon::vcpu_init(vcpu_flags.empty() ? 0 : vcpu_flags[v]);
        photon::fd_events_init(new LabEngine(me));
        main_th[v] = photon::CURRENT;
        vcpus[v] = photon::get_vcpu();
        barrier(me, arrived, nvcpu);          // every vCPU exists before any actor runs
        if (vcpu_setup) vcpu_setup(v);
        for (size_t i = 0; i < actors.size(); i++)
            if (actors[i].vcpu == v) {
                entry_args[i] = {this, (int)i};
                auto th = photon::thread_create(&Lab::actor_tramp, &entry_args[i], actors[i].stack, 0,
                                                photon::THREAD_JOINABLE | (actors[i].stealable ? photon::THREAD_ENABLE_WORK_STEALING : 0));
                actor_th[i] = th;
            }
        // woken by the last actor's thread_interrupt(); the finite period only covers the window in which
        // that interrupt finds this thread still RUNNING on its way to sleep (it is then dropped)
        while (!all_actors_finished()) photon::thread_usleep(50000);
        for (size_t i = 0; i < actors.size(); i++)
            if (actors[i].vcpu == v) photon::thread_join((photon::join_handle*)actor_th[i]);
        barrier(me, arrived2, nvcpu);         // every actor of every vCPU has been joined
        if (vcpu_teardown) vcpu_teardown(v);
        barrier(me, arrived3, nvcpu);         // nobody tears its vCPU down while another may still look at it
        photon::fd_events_fini();
        photon::vcpu_fini();
        ctl.done(me);
    }
    void os_main(int k) {
        int me = nvcpu + k;
        ctl.begin(me);
        os_threads[k]();
        ctl.done(me);
    }
    // Runs the case.  Returns only if every participant finished; otherwise the case ends inside
    // ctl.quiescence()/violation()/inconclusive() via finish_now().
    void run() {
        static bool quiet = (set_log_output_level(ALOG_AUDIT + 1), set_log_output(log_output_null), true);
        (void)quiet;
        inst() = this;
        Controller::inst() = &ctl;
        {   // exactly one participant runs at a time: keep them all on one core so that a hand-off is a
            // local context switch instead of a cross-core wake-up (an order of magnitude faster under load)
            cpu_set_t set; CPU_ZERO(&set);
            long ncpu = sysconf(_SC_NPROCESSORS_ONLN);
            int cpu = vf::worker_index() >= 0 && ncpu > 0 ? vf::worker_index() % (int)ncpu : sched_getcpu();
            if (cpu >= 0 && !getenv("LAB_NOPIN")) { CPU_SET(cpu, &set); sched_setaffinity(0, sizeof set, &set); }
        }
        int n = nvcpu + (int)os_threads.size();
        ctl.p.resize(n);
        for (int i = 0; i < n; i++) { sem_init(&ctl.p[i].sem, 0, 0); ctl.p[i].state = P_RUN; ctl.p[i].is_vcpu = i < nvcpu; }
        actor_th.assign(actors.size(), nullptr);
        main_th.assign(nvcpu, nullptr);
        vcpus.assign(nvcpu, nullptr);
        finished.assign(actors.size(), 0);
        entry_args.resize(actors.size());
        remaining = (int)actors.size();
        ctl.tracing = getenv("LAB_TRACE") != nullptr;
        photon_verif_clock = &lab_clock_hook;
        photon_verif_sp = &lab_sp_hook;
        // small OS-thread stacks: ASan has to clear the shadow of every new thread's stack, and
        // 8 MB defaults made thread start-up dominate the cost of a case
        struct Start { Lab* lab; int idx; bool vcpu; };
        std::vector<Start> starts;
        for (int v = 0; v < nvcpu; v++) starts.push_back({this, v, true});
        for (int k = 0; k < (int)os_threads.size(); k++) starts.push_back({this, k, false});
        std::vector<pthread_t> ths(starts.size());
        pthread_attr_t attr; pthread_attr_init(&attr); pthread_attr_setstacksize(&attr, 1024 * 1024);
        for (size_t i = 0; i < starts.size(); i++)
            pthread_create(&ths[i], &attr, [](void* a) -> void* { auto s = (Start*)a; if (s->vcpu) s->lab->vcpu_main(s->idx); else s->lab->os_main(s->idx); return nullptr; }, &starts[i]);
        ctl.cur = 0;
        sem_post(&ctl.p[0].sem);
        for (auto& t : ths) pthread_join(t, nullptr);
        photon_verif_sp = nullptr;
        photon_verif_clock = nullptr;
    }
    void stats_labels(Outcome& o) {
        if (ctl.preemptions) o.label("sched:preempted");
        if (ctl.clock_jumps) o.label("sched:clock_jumps");
        if (nvcpu > 1) o.label("vcpus:" + std::to_string(nvcpu)); else o.label("vcpus:1");
    }
};

// ---------------------------------------------------------------- generators shared by harnesses
// schedule: 0..N rows [gap, type, arg]; two styles: sparse (few preemptions) and dense random walk
inline rc::Gen<std::vector<std::vector<long>>> gen_schedule(int max_entries = 40) {
    return rc::gen::exec([=]() {
        std::vector<std::vector<long>> rows;
        long style = *vf::range(0, 2);
        long n = style == 0 ? *vf::range(0, 4) : *vf::range(0, max_entries);
        for (long i = 0; i < n; i++) {
            long gap = style == 2 ? *vf::range(1, 3) : *rc::gen::weightedOneOf<long>({{4, vf::range(1, 6)}, {3, vf::range(7, 40)}, {1, vf::range(41, 300)}});
            long type = *rc::gen::weightedOneOf<long>({{4, rc::gen::just<long>(0)}, {1, rc::gen::just<long>(1)}});
            long arg = type == 0 ? *vf::range(0, 5) : *rc::gen::weightedOneOf<long>({{3, vf::range(1, 50)}, {3, vf::range(51, 2000)}, {1, vf::range(2001, 200000)}});
            rows.push_back({gap, type, arg});
        }
        return rows;
    });
}

}  // namespace lab
