// Real-parallel stress part for C01 (mutex / spinlock variants) and C06 (rwlock / qrwlock): generated mixes of
// lock / try_lock / timed lock with bodies that yield or burn CPU, on 2..8 vCPUs running as real OS threads.
// The controlled scheduler only pre-empts at the schedule points compiled into the library; races inside a
// lock-free step (between two atomics of one function) only show under true parallelism.  The oracle is purely
// logical (holder counters checked inside every critical section, state word at the end), never a time bound;
// a case in which no lock attempt finishes for 30 s is reported as "threads still blocked" (replayed 3x by the check).
//   -DSTRESS_PROP=1 : C01 (impl 0 mutex, 1 mutex(contending), 2 spinlock, 3 ticket_spinlock, 4 qspinlock)
//   -DSTRESS_PROP=6 : C06 (impl 0 rwlock, 1 qrwlock)
//   -DSTRESS_PROP=2 : C02 (semaphore used as a pool of cfg[4] tokens; impl 0 in-order, 1 out-of-order resume; kind = tokens wanted - 1)
#include "pbt.h"
#include <photon/photon.h>
#include <photon/thread/thread.h>
#include <photon/thread/thread11.h>
#include <photon/common/alog.h>
#include <atomic>
#include <mutex>
#include <sstream>
#include <thread>

#ifndef STRESS_PROP
#define STRESS_PROP 6
#endif

using vf::Case;
using vf::Outcome;

namespace {

// thread program rows t<i>: [kind, timeout_us (-1 none), body (0 none, 1 yield, 2 burn), body arg]
//   C06 kinds: 0 lock(R) 1 lock(W) 2 try_lock(R) 3 try_lock(W);  C01 kinds: 0 lock 1 try_lock
// cfg: [nthreads, impl, rounds (each thread runs its program this many times), photon threads per vCPU]

struct PRw : public photon::rwlock { int64_t st() { return state; } };
struct PQ : public photon::qrwlock { int64_t st() { return lock_state.load(); } };

struct Ev { long seq; int tid; char what; long kind; long st; };
static Ev g_ring[1 << 18];
struct Shared {
    Ev* ring = g_ring; std::atomic<long> evseq{0};
    void ev(int tid, char what, long kind, long st) { long q = evseq.fetch_add(1); ring[q & ((1 << 18) - 1)] = Ev{q, tid, what, kind, st}; }
    std::atomic<int> readers{0}, writers{0};
    std::atomic<long> sections{0}, failed{0}, overlapped_readers{0};
    std::mutex mu; std::string first_violation;
    std::atomic<int> running{0};
    std::atomic<long> progress{0};       // lock attempts finished (either way)
    void violation(const std::string& m) { std::lock_guard<std::mutex> g(mu); if (first_violation.empty()) first_violation = m; }
};

struct Locks {
    long impl = 0;
    PRw rw; PQ q;
    photon::mutex m0{100, false}, m1{100, true};
    photon::spinlock sp; photon::ticket_spinlock tk; photon::qspinlock qs;
    long cap = 1;
    std::unique_ptr<photon::semaphore> sem;
    void init_sem() { sem.reset(new photon::semaphore((uint64_t)cap, impl == 0)); }
    // returns 0 when acquired
    int acquire(long kind, long tmo) {
        photon::Timeout to = tmo < 0 ? photon::Timeout() : photon::Timeout((uint64_t)tmo);
#if STRESS_PROP == 2
        return sem->wait((uint64_t)kind + 1, to);
#elif STRESS_PROP == 6
        int mode = (kind & 1) ? photon::WLOCK : photon::RLOCK;
        if (kind >= 2) return impl == 1 ? q.try_lock(mode) : rw.lock(mode, photon::Timeout(0));
        return impl == 1 ? q.lock(mode, to) : rw.lock(mode, to);
#else
        switch (impl) {
        case 0: return kind ? m0.try_lock() : m0.lock(to);
        case 1: return kind ? m1.try_lock() : m1.lock(to);
        case 2: return kind ? sp.try_lock() : sp.lock();
        case 3: return tk.lock();                    // (ticket_spinlock::try_lock is declared but has no definition upstream)
        default: return kind ? qs.try_lock() : qs.lock();
        }
#endif
    }
    void release(long kind = 0) {
#if STRESS_PROP == 2
        sem->signal((uint64_t)kind + 1);
#elif STRESS_PROP == 6
        if (impl == 1) q.unlock(); else rw.unlock();
#else
        switch (impl) { case 0: m0.unlock(); break; case 1: m1.unlock(); break; case 2: sp.unlock(); break; case 3: tk.unlock(); break; default: qs.unlock(); }
#endif
    }
    long word() {
#if STRESS_PROP == 2
        return (long)sem->count();
#elif STRESS_PROP == 6
        return impl == 1 ? q.st() : rw.st();
#else
        return 0;
#endif
    }
    bool idle() {
#if STRESS_PROP == 2
        return (long)sem->count() == cap;
#elif STRESS_PROP == 6
        return (impl == 1 ? q.st() : rw.st()) == 0;
#else
        switch (impl) { case 0: return !m0.locked(); case 1: return !m1.locked(); case 2: return !sp.locked(); case 3: return true; default: return !qs.locked(); }
#endif
    }
};

void burn(long n) { volatile long x = 0; for (long i = 0; i < n * 20; i++) x += i; }

void worker(Shared& S, Locks& L, const std::vector<std::vector<long>>& prog, long rounds, int tid) {
    for (long r = 0; r < rounds && S.first_violation.empty(); r++)
        for (auto& op : prog) {
            if (op.size() < 4) continue;
            long kind = op[0], tmo = op[1], body = op[2], barg = op[3];
#if STRESS_PROP == 6
            bool writer = kind & 1;
#else
            bool writer = true;
#endif
            S.progress++;
            S.ev(tid, 'a', kind * 1000 + (tmo < 0 ? 999 : tmo), L.word());
            if (L.acquire(kind, tmo) != 0) { S.ev(tid, 'f', kind, L.word()); S.failed++; if (body == 1) photon::thread_yield(); continue; }
            S.ev(tid, 'g', kind, L.word());
#if STRESS_PROP == 2
            {
                int held = S.readers.fetch_add((int)kind + 1) + (int)kind + 1;
                if (held > (int)L.cap) S.violation("thread " + std::to_string(tid) + " was granted " + std::to_string(kind + 1) + " token(s): " + std::to_string(held) + " are out although the semaphore only ever had " + std::to_string(L.cap));
                if (held > (int)kind + 1) S.overlapped_readers++;
                if (body == 1) photon::thread_yield(); else if (body == 2) burn(barg);
                S.readers.fetch_sub((int)kind + 1);
                S.sections++;
                S.ev(tid, 'u', kind, L.word());
                L.release(kind);
                continue;
            }
#endif
            if (writer) {
                int w = S.writers.fetch_add(1), rd = S.readers.load();
                if (w != 0 || rd != 0) S.violation("thread " + std::to_string(tid) + " holds the lock exclusively while " + std::to_string(w) + " other exclusive holder(s) and " + std::to_string(rd) + " shared holder(s) are inside");
            } else {
                int rd = S.readers.fetch_add(1), w = S.writers.load();
                if (w != 0) S.violation("thread " + std::to_string(tid) + " holds the lock shared while an exclusive holder is inside");
                if (rd > 0) S.overlapped_readers++;
            }
            if (body == 1) photon::thread_yield(); else if (body == 2) burn(barg);
            if (writer) { if (S.readers.load() != 0 || S.writers.load() != 1) S.violation("exclusivity broken while thread " + std::to_string(tid) + " was inside"); S.writers.fetch_sub(1); }
            else { if (S.writers.load() != 0) S.violation("an exclusive holder entered while thread " + std::to_string(tid) + " held the lock shared"); S.readers.fetch_sub(1); }
            S.sections++;
            S.ev(tid, 'u', kind, L.word());
            L.release();
            S.ev(tid, 'r', kind, L.word());
        }
}

Outcome run_case(const Case& c) {
    static bool once = (set_log_output_level(ALOG_AUDIT + 1), set_log_output(log_output_null), true);
    (void)once;
    long nth = std::max<long>(2, c.cfg.at(0)), rounds = c.cfg.at(2), per = std::max<long>(1, c.cfg.at(3));
    Shared S; Locks L; L.impl = c.cfg.at(1);
    L.cap = c.cfg.size() > 4 ? std::max<long>(1, c.cfg[4]) : 1; L.init_sem();
    std::atomic<bool> case_done{false};
    std::thread watchdog([&]() {
        // no lock attempt finished anywhere for 30 s (a busy machine only makes things slow, it does not stop them)
        long last = -1; int still = 0;
        while (!case_done && still < 3000) { std::this_thread::sleep_for(std::chrono::milliseconds(10)); long p = S.progress.load(); if (p != last) { last = p; still = 0; } else still++; }
        if (case_done) return;
        if (getenv("STRESS_DUMP")) { long e = S.evseq.load(); long lastg = 0; for (long q = std::max<long>(0, e - (1 << 18) + 8); q < e; q++) if (S.ring[q & ((1 << 18) - 1)].what == 'r') lastg = q; for (long q = std::max<long>(0, lastg - 120); q < std::min(e, lastg + 60); q++) { auto& x = S.ring[q & ((1 << 18) - 1)]; fprintf(stderr, "[ev] %ld t%d %c kind=%ld word=%ld\n", x.seq, x.tid, x.what, x.kind, x.st); } }
        vf::finish_now(Outcome::violation("threads still blocked: no lock attempt finished for 30 s (" + std::to_string(S.running.load()) + " of them; " + std::to_string(S.sections.load()) + " sections completed): lost wake-up or deadlock" +
                                          (S.first_violation.empty() ? "" : "; earlier: " + S.first_violation)));
    });
    std::vector<std::thread> ths;
    std::atomic<int> ready{0};
    for (long t = 0; t < nth; t++) ths.emplace_back([&, t]() {
        if (photon::init(photon::INIT_EVENT_EPOLL, photon::INIT_IO_NONE) != 0) { S.violation("photon::init failed"); ready++; return; }
        ready++;
        while (ready.load() < nth) std::this_thread::yield();
        std::vector<photon::join_handle*> jh;
        for (long k = 0; k < per; k++) {
            S.running++;
            const auto* prog = &c.S("t" + std::to_string(t * per + k));
            jh.push_back(photon::thread_enable_join(photon::thread_create11([&S, &L, prog, rounds, t, k, per]() { worker(S, L, *prog, rounds, (int)(t * per + k)); S.running--; })));
        }
        for (auto j : jh) photon::thread_join(j);
        photon::fini();
    });
    for (auto& t : ths) t.join();
    case_done = true; watchdog.join();
    if (S.first_violation.empty() && !L.idle()) S.violation("the lock is not free after every thread released it");
    if (S.first_violation.empty() && (S.readers.load() || S.writers.load())) S.violation("holder counters are not zero at the end");
    if (!S.first_violation.empty()) return Outcome::violation(S.first_violation);
    Outcome out;
    out.nontrivial = S.failed.load() > 0 || S.overlapped_readers.load() > 0;
    if (S.failed.load()) out.label("contention:try_or_timed_lock_failed");
    if (S.overlapped_readers.load()) out.label("readers_shared");
    out.label("impl:" + std::to_string(L.impl));
    out.label("threads:" + std::to_string(nth) + "x" + std::to_string(per));
    if (S.sections.load() > 5000) out.label("sections:>5000");
    return out;
}

rc::Gen<Case> gen_case(const vf::Options&) {
    return rc::gen::exec([]() {
        Case c;
        long nth = *rc::gen::weightedOneOf<long>({{3, vf::range(2, 3)}, {3, vf::range(4, 6)}, {1, vf::range(7, 8)}});
#if STRESS_PROP == 6 || STRESS_PROP == 2
        long impl = *vf::range(0, 1);
#else
        long impl = *vf::range(0, 4);
#endif
        long per = *vf::range(1, 2);
        // family "spin": only try_lock / untimed spinning attempts, no sleeping - orders of magnitude more attempts per
        // second, which is what a window of a few instructions needs
        bool spin_family = *vf::range(0, 2) == 0;
        c.cfg = {nth, impl, spin_family ? *vf::oneof<long>({2000, 8000}) : *vf::oneof<long>({30, 200, 800}), spin_family ? 1 : per};
        if (spin_family) per = 1;
        long cap = *vf::range(1, 4);
        c.cfg.push_back(cap);
        for (long t = 0; t < nth * per; t++) {
            long n = *vf::range(1, 4);
            std::vector<std::vector<long>> prog;
            for (long k = 0; k < n; k++) {
#if STRESS_PROP == 2
                long kind = *vf::range(0, cap - 1);
#elif STRESS_PROP == 6
                long kind = *rc::gen::weightedOneOf<long>({{4, rc::gen::just<long>(0)}, {3, rc::gen::just<long>(1)}, {3, rc::gen::just<long>(2)}, {2, rc::gen::just<long>(3)}});
#else
                long kind = *rc::gen::weightedOneOf<long>({{3, rc::gen::just<long>(0)}, {2, rc::gen::just<long>(1)}});
#endif
                long tmo = *rc::gen::weightedOneOf<long>({{3, rc::gen::just<long>(-1)}, {1, rc::gen::just<long>(0)}, {2, vf::range(1, 300)}});
                long body = *rc::gen::weightedOneOf<long>({{3, rc::gen::just<long>(0)}, {2, rc::gen::just<long>(1)}, {3, rc::gen::just<long>(2)}});
                if (spin_family) {
#if STRESS_PROP == 2
                    kind = kind;
#elif STRESS_PROP == 6
                    kind = *rc::gen::weightedOneOf<long>({{4, rc::gen::just<long>(2)}, {2, rc::gen::just<long>(3)}});
#else
                    kind = impl >= 2 ? *vf::range(0, 1) : 1;
#endif
                    tmo = 0; body = *rc::gen::weightedOneOf<long>({{1, rc::gen::just<long>(0)}, {2, rc::gen::just<long>(2)}});
                }
#if STRESS_PROP != 6
                if (impl >= 2 && body == 1) body = 2;      // nobody yields while holding a spin lock
#endif
                prog.push_back({kind, tmo, body, *vf::range(1, 40)});
            }
            c.S("t" + std::to_string(t)) = prog;
        }
        return c;
    });
}

std::string describe(const Case& c) {
    std::ostringstream o;
#if STRESS_PROP == 2
    static const char* im[] = {"semaphore(in-order)", "semaphore(out-of-order)"}; static const char* kn[] = {"wait(1)", "wait(2)", "wait(3)", "wait(4)"};
    o << "tokens=" << (c.cfg.size() > 4 ? c.cfg[4] : 1) << " impl=" << im[c.cfg[1] % 2];
#elif STRESS_PROP == 6
    static const char* im[] = {"rwlock", "qrwlock"}; static const char* kn[] = {"lock(R)", "lock(W)", "try_lock(R)", "try_lock(W)"};
    o << "impl=" << im[c.cfg[1] % 2];
#else
    static const char* im[] = {"mutex", "mutex(contending)", "spinlock", "ticket_spinlock", "qspinlock"}; static const char* kn[] = {"lock", "try_lock", "lock", "try_lock"};
    o << "impl=" << im[c.cfg[1] % 5];
#endif
    o << " vcpus(os threads)=" << c.cfg[0] << " photon threads per vcpu=" << c.cfg[3] << " rounds=" << c.cfg[2] << "\n";
    for (long t = 0; t < c.cfg[0] * c.cfg[3]; t++) {
        o << " t" << t << ":";
        for (auto& r : c.S("t" + std::to_string(t))) if (r.size() >= 4) o << " " << kn[r[0] % 4] << "(tmo " << r[1] << ") body" << r[2] << "(" << r[3] << ");";
        o << "\n";
    }
    return o.str();
}
}  // namespace

int main(int argc, char** argv) {
    vf::Harness h;
    h.prop = STRESS_PROP == 6 ? "C06" : STRESS_PROP == 2 ? "C02" : "C01";
    h.gen = gen_case;
    h.run = run_case;
    h.desc = describe;
    h.fork_per_case = true;
    h.persistent_child = true;
    return vf::pbt_main(argc, argv, h);
}
