#!/usr/bin/env python3
"""Regenerates /verif/MANIFEST.json from props.json (claimed checks) and properties.jsonl (ids)."""
import json, os, subprocess
V = os.path.dirname(os.path.dirname(os.path.abspath(__file__)))
props = json.load(open(os.path.join(V, "props.json")))
ids = [json.loads(l)["id"] for l in open(os.path.join(V, "properties.jsonl"))]
na = json.load(open(os.path.join(V, "not_applicable.json"))) if os.path.exists(os.path.join(V, "not_applicable.json")) else {}
hooks = []
try:
    out = subprocess.check_output(["git", "-C", "/repo", "log", "--format=%h %s"], text=True)
    hooks = [l.split()[0] for l in out.splitlines() if l.split(" ", 1)[1].startswith("verif-hook:")]
except Exception:
    pass
checks = []
for pid in ids:
    if pid not in props or props[pid].get("disabled"):
        continue
    P = props[pid]
    checks.append({
        "property_id": pid,
        "quick_cmd": "./check %s --tier quick" % pid,
        "thorough_cmd": "./check %s --tier thorough" % pid,
        "evidence_file": "/verif/evidence/%s.json" % pid,
        "replay_cmd_template": "./check %s --replay {path}" % pid,
        "engine": P.get("engine", "pbt"),
        "level_claimed": {"category": P.get("level", "exploration"), "text": P["level_text"], "design_ref": P.get("design_ref", "DESIGN.md section 3, " + pid)},
        "level_note": P["level_note"],
        "technique": P["technique"],
    })
m = {
    "version": 1,
    "setup_cmd": "python3 /verif/build.py --setup",
    "hooks": {
        "guard": "PHOTON_VERIF",
        "enable": "checks compile the library sources of /repo's working tree themselves (build.py) with -DPHOTON_VERIF; the CMake build never defines it",
        "baseline_off_cmd": "cmake --build /repo/_build -j16 && ctest --test-dir /repo/_build -j8 --timeout 900",
        "source_commits": hooks,
        "add_only": True,
    },
    "engines": [
        {"name": "pbt", "path": "engine/pbt.h", "serves_properties": [p for p in ids if p in props],
         "kind_free_text": "rapidcheck generators + fork-per-case execution + shrinking to a plain-text replay file; exhaustive enumeration mode for bounded sub-domains"},
        {"name": "schedlab", "path": "engine/schedlab.h", "serves_properties": [p for p in ids if p in props and props[p].get("schedlab")],
         "kind_free_text": "controlled scheduler: every vCPU / OS thread is a participant, exactly one runs, hand-offs at hook points follow the generated schedule; virtual clock"},
        {"name": "parallel", "path": "props/locks_stress.cpp", "serves_properties": [p for p in ids if p in props and (any(q.get("name") in ("parallel", "owned") for q in props[p]["parts"]) or p == "C10")],
         "kind_free_text": "generated workloads on real vCPUs / real kernel with uncontrolled interleavings (built on the pbt driver); logical oracles plus a no-progress watchdog; see DESIGN.md 0.2"},
        {"name": "fuzz", "path": "engine/fuzz.h", "serves_properties": [p for p in ids if p in props and any(q.get("engine") == "fuzz" for q in props[p]["parts"])],
         "kind_free_text": "libFuzzer targets with the semantic oracle inside the target and a stats dump for evidence"},
    ],
    "checks": checks,
    "notes": "All checks are generated-input searches against an explicit oracle (see DESIGN.md). Known findings: known_findings.json.",
    "not_applicable": [{"property_id": p, "reason": na.get(p, "check not built yet in this session (work in progress; planned check in DESIGN.md section 3)")} for p in ids if p not in props or props[p].get("disabled")],
}
json.dump(m, open(os.path.join(V, "MANIFEST.json"), "w"), indent=1)
print("manifest: %d checks, %d not_applicable" % (len(checks), len(m["not_applicable"])))
