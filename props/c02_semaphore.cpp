// C02 — semaphore: token conservation, no lost wake-up, safe to destroy right after wait().
#include "lab_common.h"
#include <photon/thread/awaiter.h>

using namespace labc;

namespace {

enum { OP_WAIT = 10, OP_SIGNAL = 11, OP_EPH_WAIT = 12, OP_EPH_SIGNAL = 13 };

struct PSem : public photon::semaphore {
    using photon::semaphore::semaphore;
    photon::thread* head() { return q.th; }
};

struct H {
    Common C;
    std::unique_ptr<PSem> sem;
    long initial = 0; bool ooo = false;
    long sig_started = 0, sig_done = 0, demand_started = 0, taken = 0;
    std::vector<long> waiting_demand;          // per actor: demand of the wait in progress (0: none)
    std::vector<int> failed_before;
    std::set<std::string> labels;
    bool nt = false;
    // ephemeral objects
    std::vector<PSem*> eph_sem;                // slot -> published semaphore
    std::vector<photon::Awaiter<photon::PhotonContext>*> eph_aw;

    void check_bounds(const char* where) {
        long cnt = (long)sem->count();
        long hi = initial + sig_started - taken;
        long lo = initial + sig_done - demand_started;
        if (cnt > hi || cnt < lo) {
            std::ostringstream o;
            o << where << ": count()=" << cnt << " outside [" << lo << "," << hi << "] (initial " << initial << ", signalled " << sig_done << "/" << sig_started
              << " completed/started, taken " << taken << ", demand started " << demand_started << ")";
            C.L.ctl.violation(o.str());
        }
    }
    int cur_vcpu_index() { auto v = photon::get_vcpu(); for (int i = 0; i < (int)C.L.vcpus.size(); i++) if (C.L.vcpus[i] == v) return i; return -1; }
    int last_signal_vcpu = -2;                 // -1: OS thread

    void do_signal(long n, int from_vcpu) {
        sig_started += n;
        last_signal_vcpu = from_vcpu;
        sem->signal((uint64_t)n);
        sig_done += n;
    }
    void run_op(int id, const std::vector<long>& r) {
        auto& ctl = C.L.ctl;
        switch (r[0]) {
        case OP_WAIT: {
            long m = std::max<long>(1, r.at(1));
            long tmo = r.at(2);
            bool interruptible = r.at(3) != 0;
            bool enough_now = (long)sem->count() >= m;
            demand_started += m;
            waiting_demand[id] = m;
            int ints0 = C.st[id].ints_received;
            C.st[id].phase = interruptible ? "wait_interruptible" : "wait"; C.st[id].phase_arg = m;
            uint64_t deadline_lo = tmo < 0 ? 0 : photon::now + (uint64_t)tmo;
            photon::Timeout to = tmo < 0 ? photon::Timeout() : photon::Timeout((uint64_t)tmo);
            if (getenv("C02_DEBUG")) fprintf(stderr, "[c02] actor%d wait(%ld) begins count=%ld step=%ld\n", id, m, (long)sem->count(), ctl.step);
            int ret = interruptible ? sem->wait_interruptible((uint64_t)m, to) : sem->wait((uint64_t)m, to);
            int en = errno;
            if (getenv("C02_DEBUG")) fprintf(stderr, "[c02] actor%d wait(%ld) -> %d errno %d count=%ld step=%ld\n", id, m, ret, en, (long)sem->count(), ctl.step);
            waiting_demand[id] = 0;
            if (ret == 0) {
                taken += m;
                if (!enough_now) {
                    labels.insert("waiter_slept_then_satisfied");
                    if (last_signal_vcpu != -2 && last_signal_vcpu != cur_vcpu_index()) { nt = true; labels.insert("satisfied_from_other_vcpu_or_os_thread"); }
                }
                if (failed_before[id]) { nt = true; labels.insert("success_after_failed_wait"); }
            } else {
                demand_started -= m;           // a failed wait takes nothing
                failed_before[id] = 1;
                if (ret != -1) ctl.violation("wait returned " + std::to_string(ret));
                if (en == ETIMEDOUT) {
                    if (tmo < 0) ctl.violation("actor" + std::to_string(id) + ": untimed wait reported ETIMEDOUT");
                    if (photon::now < deadline_lo) ctl.violation("actor" + std::to_string(id) + ": wait reported ETIMEDOUT before its deadline");
                    labels.insert("wait_timed_out");
                } else {
                    if (!interruptible) ctl.violation("actor" + std::to_string(id) + ": wait() (the uninterruptible wrapper) returned -1 with errno " + std::to_string(en));
                    if (C.st[id].ints_received == 0) ctl.violation("actor" + std::to_string(id) + ": wait_interruptible failed with errno " + std::to_string(en) + " but nobody interrupted it");
                    (void)ints0;
                    labels.insert("wait_interrupted");
                }
            }
            check_bounds("after wait");
            break;
        }
        case OP_SIGNAL: {
            long n = r.at(1);
            C.st[id].phase = "signal";
            if (getenv("C02_DEBUG")) fprintf(stderr, "[c02] actor%d signal(%ld) begins count=%ld step=%ld\n", id, n, (long)sem->count(), ctl.step);
            do_signal(n, cur_vcpu_index());
            if (getenv("C02_DEBUG")) fprintf(stderr, "[c02] actor%d signal(%ld) done count=%ld step=%ld\n", id, n, (long)sem->count(), ctl.step);
            check_bounds("after signal");
            break;
        }
        case OP_EPH_WAIT: {
            // the object lives in a heap block that is freed the moment wait() returns
            int slot = (int)(r.at(1) % (long)eph_sem.size());
            bool awaiter = r.at(2) != 0;
            C.st[id].phase = "ephemeral wait";
            long pre = r.size() > 3 ? r[3] : 0;      // 0: wait at once, 1: yield first, >1: sleep that long first
            auto delay = [&]() { if (pre == 1) photon::thread_yield(); else if (pre > 1) photon::thread_usleep((uint64_t)pre); };
            if (awaiter) {
                auto* a = new photon::Awaiter<photon::PhotonContext>();
                eph_aw[slot] = a;
                delay();
                a->suspend();
                eph_aw[slot] = nullptr;
                delete a;
            } else {
                auto* s = new PSem(0);
                eph_sem[slot] = s;
                delay();
                s->wait(1);
                eph_sem[slot] = nullptr;
                delete s;
            }
            labels.insert("ephemeral_destroyed_after_wait");
            nt = true;
            break;
        }
        case OP_EPH_SIGNAL: {
            int slot = (int)(r.at(1) % (long)eph_sem.size());
            C.st[id].phase = "ephemeral signal (waiting for the object)";
            while (!eph_sem[slot] && !eph_aw[slot]) { if (photon::thread_usleep(50) < 0) {} if (ctl.vnow > ctl.horizon) return; }
            if (eph_sem[slot]) eph_sem[slot]->signal(1); else eph_aw[slot]->resume();
            break;
        }
        }
    }
    void run_os_op(int, const std::vector<long>& r) {
        auto& ctl = C.L.ctl;
        if (r[0] == OP_SIGNAL) do_signal(r.at(1), -1);
        else if (r[0] == OP_EPH_SIGNAL) {
            int slot = (int)(r.at(1) % (long)eph_sem.size());
            long spins = 0;
            while (!eph_sem[slot] && !eph_aw[slot]) { PHOTON_VERIF_SP(PHOTON_VERIF_SP_BUSYWAIT, nullptr); if (++spins > 20000) return; }
            if (eph_sem[slot]) eph_sem[slot]->signal(1); else eph_aw[slot]->resume();
            (void)ctl;
        }
    }
    // lost wake-up: somebody blocked although the count covers the demand that has to be served next
    void quiescent_oracle(bool at_end) {
        auto& ctl = C.L.ctl;
        long cnt = (long)sem->count();
        long expect = initial + sig_done - taken;
        if (sig_done == sig_started && cnt != expect) {
            std::ostringstream o; o << "conservation: count()=" << cnt << " but initial " << initial << " + signalled " << sig_done << " - taken " << taken << " = " << expect;
            ctl.violation(o.str());
        }
        if (at_end) return;
        // who is blocked in a wait on the shared semaphore?
        photon::thread* head = sem->head();
        for (int i = 0; i < C.nactors(); i++) {
            if (C.st[i].finished || waiting_demand[i] == 0) continue;
            bool is_head = C.L.actor_th[i] == head;
            if ((ooo || is_head) && waiting_demand[i] <= cnt) {
                std::ostringstream o; o << "lost wake-up: actor" << i << " still blocked waiting for " << waiting_demand[i] << " while count()=" << cnt
                                        << (ooo ? " (out-of-order mode)" : " and it is at the head of the queue");
                ctl.violation(o.str());
            }
        }
        if (cnt > 0 && head == nullptr) {
            for (int i = 0; i < C.nactors(); i++) if (!C.st[i].finished && waiting_demand[i] && waiting_demand[i] <= cnt)
                ctl.violation("lost wake-up: actor" + std::to_string(i) + " blocked in wait but not in the queue while tokens are available");
        }
        // actors blocked anywhere else (ephemeral waits, sleeps) must not exist at quiescence
        for (int i = 0; i < C.nactors(); i++)
            if (!C.st[i].finished && waiting_demand[i] == 0 && std::string(C.st[i].phase) != "ephemeral wait")
                ctl.violation("actor" + std::to_string(i) + " blocked at quiescence in phase '" + C.st[i].phase + "'");
    }
};

Outcome run_case(const Case& c) {
    H h;
    h.initial = c.cfg.at(5); h.ooo = c.cfg.at(6) != 0;
    h.sem.reset(new PSem((uint64_t)h.initial, !h.ooo));
    h.eph_sem.assign(4, nullptr); h.eph_aw.assign(4, nullptr);
    h.C.setup(c, [&](int id, const std::vector<long>& r) { h.run_op(id, r); }, [&](int k, const std::vector<long>& r) { h.run_os_op(k, r); });
    h.waiting_demand.assign(h.C.nactors(), 0); h.failed_before.assign(h.C.nactors(), 0);
    auto& ctl = h.C.L.ctl;
    ctl.on_quiescence = [&]() {
        h.quiescent_oracle(false);
        ctl.out.nontrivial = h.nt;
        for (auto& l : h.labels) ctl.out.label(l);
        ctl.out.label("waiters_left_blocked_legitimately");
        ctl.out.label(h.ooo ? "mode:out_of_order" : "mode:in_order");
    };
    h.C.L.run();
    h.quiescent_oracle(true);
    Outcome& out = ctl.out;
    out.nontrivial = h.nt;
    for (auto& l : h.labels) out.label(l);
    out.label(h.ooo ? "mode:out_of_order" : "mode:in_order");
    h.C.L.stats_labels(out);
    return out;
}

rc::Gen<Case> gen_case(const vf::Options&) {
    return rc::gen::exec([]() {
        Case c;
        bool eph = *vf::range(0, 4) == 0;
        long na = gen_common(c, 2, 5, 2);
        c.cfg.push_back(*vf::range(0, 4));      // initial count
        c.cfg.push_back(*vf::range(0, 1));      // out-of-order resume
        long nos = c.cfg[4];
        if (eph) {
            // pairs (waiter, signaller) on ephemeral objects; signaller is another actor or an OS thread
            long pairs = std::min<long>(na / 2, 2);
            for (long p = 0; p < pairs; p++) {
                c.S("a" + std::to_string(2 * p)).push_back({OP_EPH_WAIT, p, *vf::range(0, 1), *rc::gen::weightedOneOf<long>({{2, rc::gen::just<long>(0)}, {2, rc::gen::just<long>(1)}, {3, vf::range(2, 120)}})});
                if (nos > p && *vf::range(0, 1)) c.S("o" + std::to_string(p)).push_back({OP_EPH_SIGNAL, p});
                else { auto& pr = c.S("a" + std::to_string(2 * p + 1)); if (*vf::range(0, 1)) pr.push_back({OP_YIELD}); pr.push_back({OP_EPH_SIGNAL, p}); }
            }
            c.S("sched") = *gen_schedule(40);
            return c;
        }
        if (na >= 3 && *vf::range(0, 3) == 0) {
            // "barging" family: a timed waiter at the head, a successor behind it, a signal that covers the head,
            // a wait that takes part of those tokens before the head runs, and time passing meanwhile
            long big = *vf::range(2, 4), T = *vf::range(30, 2000);
            c.cfg[5] = 0;
            c.S("a0").push_back({OP_WAIT, big, T, *vf::range(0, 1)});
            if (*vf::range(0, 1)) c.S("a1").push_back({OP_YIELD});
            c.S("a1").push_back({OP_WAIT, *vf::range(1, big - 1), -1, 0});
            auto& m = c.S("a2");
            m.push_back({OP_SLEEP, *vf::range(5, 25)});
            m.push_back({OP_SIGNAL, big});
            m.push_back({OP_WAIT, 1, *vf::oneof<long>({0, -1}), 0});
            m.push_back({OP_BURN, *rc::gen::weightedOneOf<long>({{3, rc::gen::just<long>(T + 20)}, {1, vf::range(0, T)}})});
            m.push_back({OP_YIELD});
            for (long i = 3; i < na; i++) c.S("a" + std::to_string(i)).push_back({OP_SLEEP, *gen_duration()});
            c.S("sched") = *gen_schedule(20);
            return c;
        }
        for (long i = 0; i < na; i++) {
            long n = *vf::range(1, 5);
            auto& prog = c.S("a" + std::to_string(i));
            for (long k = 0; k < n; k++) {
                long kind = *rc::gen::weightedOneOf<long>({{5, rc::gen::just<long>(OP_WAIT)}, {4, rc::gen::just<long>(OP_SIGNAL)}, {1, rc::gen::just<long>(OP_YIELD)}, {1, rc::gen::just<long>(OP_SLEEP)}, {2, rc::gen::just<long>(OP_INT)}});
                if (kind == OP_WAIT) prog.push_back({kind, *vf::range(1, 4), *rc::gen::weightedOneOf<long>({{3, rc::gen::just<long>(-1)}, {1, rc::gen::just<long>(0)}, {4, vf::range(1, 3000)}}), *vf::range(0, 1)});
                else if (kind == OP_SIGNAL) prog.push_back({kind, *vf::range(0, 4)});
                else if (kind == OP_SLEEP) prog.push_back({kind, *gen_duration()});
                else if (kind == OP_INT) prog.push_back({kind, *vf::range(0, na - 1), *vf::range(0, 2)});
                else prog.push_back({kind});
            }
        }
        for (long k = 0; k < nos; k++) {
            long n = *vf::range(1, 3);
            for (long i = 0; i < n; i++) c.S("o" + std::to_string(k)).push_back({OP_SIGNAL, *vf::range(1, 4)});
        }
        c.S("sched") = *gen_schedule(40);
        return c;
    });
}

std::string opname(const std::vector<long>& r) {
    std::ostringstream o;
    switch (r[0]) {
    case OP_WAIT: o << (r[3] ? "wait_interruptible(" : "wait(") << r[1] << ", " << (r[2] < 0 ? std::string("inf") : std::to_string(r[2])) << ")"; break;
    case OP_SIGNAL: o << "signal(" << r[1] << ")"; break;
    case OP_EPH_WAIT: o << "{new " << (r[2] ? "Awaiter" : "semaphore") << "#" << r[1] << "; wait; delete}"; break;
    case OP_EPH_SIGNAL: o << "signal(ephemeral#" << r[1] << ")"; break;
    default: o << "op" << r[0];
    }
    return o.str();
}
}  // namespace

int main(int argc, char** argv) {
    vf::Harness h;
    h.prop = "C02";
    h.gen = gen_case;
    h.run = run_case;
    h.desc = [](const Case& c) { return describe_common(c, opname); };
    h.fork_per_case = true;
    h.persistent_child = true;     // a child serves cases until one ends abnormally (finish_now), then it is replaced
    return vf::pbt_main(argc, argv, h);
}
