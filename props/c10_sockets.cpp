// C10 — socket streams over the event engine (real kernel, one vCPU, real time).
//
// A generated plan: engine (epoll / epoll-ng), stream kind (TCP / UDS / edge-triggered TCP), 1..N full-duplex
// connections sharing the engine, small kernel buffers, and for each direction of each connection a writer program
// (send / write / writev with iovec shapes incl. empty elements, pauses, final shutdown) and a reader program
// (recv / read / readv with buffer shapes, pauses), optionally a short stream timeout with stalls on the other side,
// optionally an endpoint that closes early.  The stream content is a function of (connection, direction, offset), so
// every received byte is checked against its position.
#include "pbt.h"
#include <photon/photon.h>
#include <photon/thread/thread11.h>
#include <photon/net/socket.h>
#include <photon/common/alog.h>
#include <atomic>
#include <signal.h>
#include <sstream>
#include <thread>
#include <sys/socket.h>
#include <poll.h>

using vf::Case;
using vf::Outcome;
using namespace photon;
using namespace photon::net;

namespace {

enum { W_SEND = 0, W_WRITE = 1, W_WRITEV = 2, W_PAUSE = 3 };
enum { R_RECV = 0, R_READ = 1, R_READV = 2, R_PAUSE = 3 };
// cfg: [engine, kind, nconn, small_buffers]
// conn : one row per connection: [timeout_ms (0: none), abort_endpoint (0 none, 1 client closes early, 2 server closes early)]
// w<i>_<d> / r<i>_<d>: writer / reader program of direction d (0: client->server, 1: server->client) of connection i
//   writer rows [op, size, nseg, segseed | pause us];  reader rows [op, size, nseg, segseed | pause us]

inline unsigned char content(int conn, int d, uint64_t off) {
    uint64_t x = off * 0x9E3779B97F4A7C15ULL + (uint64_t)(conn * 2 + d + 1) * 0xD1B54A32D192ED03ULL;
    x ^= x >> 31; x *= 0xBF58476D1CE4E5B9ULL; x ^= x >> 29;
    return (unsigned char)x;
}

struct H;
struct Dir {
    H* h; int conn, d;
    ISocketStream* ws = nullptr; ISocketStream* rs = nullptr;       // writer's endpoint stream, reader's endpoint stream
    uint64_t tmo_us = 0;                     // short timeout configured on this connection (0: none)
    bool aborting = false;                   // an endpoint of this connection closes early: errors are legal everywhere on it
    uint64_t written = 0, attempted = 0;     // bytes of completed writes / + size of a failed write
    bool writer_failed = false, writer_done = false, writer_shut = false;
    uint64_t received = 0; bool reader_done = false, saw_eof = false, reader_failed = false;
    const char* wphase = "not started"; const char* rphase = "not started";
    bool w_in_call = false, r_in_call = false;     // inside a socket call right now
    int w_ready_streak = 0, r_ready_streak = 0;    // consecutive 50 ms samples in which the kernel reported the descriptor ready while the call was still blocked
};

struct H {
    std::string first_violation;
    std::set<std::string> labels;
    std::vector<Dir> dirs;
    int waiting_writers = 0, waiting_readers = 0;
    std::atomic<long> progress{0};       // calls returned (the watchdog looks for 60 s without any)
    std::string kernel_stall;            // a long timeout expired while the kernel itself reported the descriptor not ready
    void violation(const std::string& m) { if (first_violation.empty()) first_violation = m; }
};

std::vector<struct iovec> split(unsigned char* base, size_t n, long nseg, uint64_t seed, std::vector<size_t>* lens = nullptr) {
    static unsigned char dummy;
    std::vector<struct iovec> v;
    size_t left = n, off = 0;
    for (long s = 0; s < nseg; s++) {
        size_t m = left;
        if (s != nseg - 1) { seed = seed * 6364136223846793005ULL + 1442695040888963407ULL; m = std::min<size_t>(left, (seed >> 33) % (n / nseg + 2)); if ((seed >> 20) % 4 == 0) m = 0; }
        v.push_back({m ? (void*)(base + off) : (void*)&dummy, m});
        off += m; left -= m;
    }
    if (lens) for (auto& x : v) lens->push_back(x.iov_len);
    return v;
}

// Is the descriptor ready right now, according to the kernel?
bool ready_now(ISocketStream* s, short ev) { struct pollfd p{s->get_underlay_fd(), ev, 0}; return ::poll(&p, 1, 0) > 0 && (p.revents & (ev | POLLHUP | POLLERR)); }

std::string where(const Dir& D) { return "conn " + std::to_string(D.conn) + (D.d == 0 ? " client->server" : " server->client"); }

void run_writer(Dir& D, const std::vector<std::vector<long>>& prog, bool shutdown_at_end) {
    H& h = *D.h;
    for (auto& r : prog) {
        if (r.empty() || D.writer_failed) break;
        if (r[0] == W_PAUSE) { D.wphase = "pause"; thread_usleep((uint64_t)r.at(1)); continue; }
        size_t n = (size_t)r.at(1);
        std::vector<unsigned char> buf(n ? n : 1);
        for (size_t i = 0; i < n; i++) buf[i] = content(D.conn, D.d, D.written + i);
        uint64_t t0 = photon::now;
        ssize_t ret; int en;
        D.attempted = D.written + n;
        D.w_ready_streak = 0; D.w_in_call = true;
        if (r[0] == W_SEND) { D.wphase = "send"; ret = D.ws->send(buf.data(), n); en = errno; }
        else if (r[0] == W_WRITE) { D.wphase = "write"; ret = D.ws->write(buf.data(), n); en = errno; }
        else { D.wphase = "writev"; auto iov = split(buf.data(), n, std::max<long>(1, r.at(2)), (uint64_t)r.at(3)); ret = D.ws->writev(iov.data(), (int)iov.size()); en = errno; h.labels.insert("writev"); }
        D.w_in_call = false;
        h.progress++;
        uint64_t dt = photon::now - t0;
        std::ostringstream op; op << where(D) << ": " << D.wphase << "(" << n << " bytes) at stream offset " << D.written;
        if (ret < 0) {
            D.writer_failed = true;
            if (en == ETIMEDOUT) {
                if (!D.tmo_us) {
                    // 15 s without progress: the engine's fault only if the kernel says the descriptor is writable
                    if (D.w_ready_streak >= 20) h.violation(op.str() + " timed out after 15 s although the kernel had reported the descriptor writable for the last " + std::to_string(D.w_ready_streak * 50) + " ms (a readiness event was lost)");
                    else h.kernel_stall = op.str() + " timed out after 15 s and the descriptor is still not writable";
                } else if (dt + 1000 < D.tmo_us) h.violation(op.str() + " reported ETIMEDOUT after " + std::to_string(dt) + " us, the stream timeout is " + std::to_string(D.tmo_us));
                h.labels.insert("write_timed_out");
            } else if (!D.aborting) h.violation(op.str() + " failed with errno " + std::to_string(en) + " on a connection nobody closed");
            else h.labels.insert("write_failed_after_peer_closed");
            break;
        }
        if ((size_t)ret > n) { h.violation(op.str() + " returned " + std::to_string(ret)); break; }
        if (r[0] != W_SEND && (size_t)ret != n && !D.aborting) h.violation(op.str() + " returned " + std::to_string(ret) + " (short) although the peer did not close");
        if (r[0] == W_SEND && ret == 0 && n > 0) h.violation(op.str() + " returned 0");
        D.written += (uint64_t)ret; D.attempted = D.written;
        if (dt > 300) h.waiting_writers++;
    }
    // (also after a timed-out write: the stream stays usable, the peer must still see an end)
    if (shutdown_at_end) { D.wphase = "shutdown(WR)"; D.ws->shutdown(ShutdownHow::Write); D.writer_shut = true; }
    D.wphase = "finished"; D.writer_done = true;
}

// Consumes `got` bytes laid out over `bufs`: each must equal the stream content at its position.
bool check_bytes(Dir& D, const std::vector<std::vector<unsigned char>>& bufs, size_t got, const std::string& op) {
    size_t pos = 0;
    for (auto& b : bufs) for (size_t j = 0; j < b.size() && pos < got; j++, pos++)
        if (b[j] != content(D.conn, D.d, D.received + pos)) {
            std::ostringstream o; o << op << ": wrong byte at stream offset " << D.received + pos << " (byte " << pos << " of " << got << " returned): got 0x" << std::hex << (int)b[j] << ", written 0x" << (int)content(D.conn, D.d, D.received + pos);
            D.h->violation(o.str()); return false;
        }
    return true;
}

void run_reader(Dir& D, const std::vector<std::vector<long>>& prog, bool drain) {
    H& h = *D.h;
    size_t pc = 0;
    for (;;) {
        if (D.saw_eof || D.reader_failed) break;
        std::vector<long> r;
        if (pc < prog.size()) r = prog[pc++];
        else if (drain) r = {R_RECV, 65536, 1, 0};      // after its program a reader consumes the rest of the stream
        else break;
        if (r.empty()) continue;
        if (r[0] == R_PAUSE) { D.rphase = "pause"; thread_usleep((uint64_t)r.at(1)); continue; }
        size_t n = (size_t)r.at(1);
        long nseg = r[0] == R_READV ? std::max<long>(1, r.at(2)) : 1;
        // exact-size blocks per segment, pre-filled with the complement of the expected content (so that bytes placed
        // by a call that ends in a timeout can be counted)
        std::vector<unsigned char> flat(n ? n : 1);
        std::vector<size_t> lens;
        split(flat.data(), n, nseg, (uint64_t)r.at(3), &lens);
        std::vector<std::vector<unsigned char>> bufs; std::vector<struct iovec> iov;
        { size_t off = 0; for (size_t L : lens) { bufs.emplace_back(L); for (size_t j = 0; j < L; j++) bufs.back()[j] = (unsigned char)~content(D.conn, D.d, D.received + off + j); off += L; }
          static unsigned char dummy; for (auto& b : bufs) iov.push_back({b.empty() ? (void*)&dummy : (void*)b.data(), b.size()}); }
        uint64_t t0 = photon::now;
        ssize_t ret; int en;
        D.r_ready_streak = 0; D.r_in_call = true;
        if (r[0] == R_RECV) { D.rphase = "recv"; ret = D.rs->recv(bufs[0].empty() ? (void*)flat.data() : (void*)bufs[0].data(), n); en = errno; }
        else if (r[0] == R_READ) { D.rphase = "read"; ret = D.rs->read(bufs[0].empty() ? (void*)flat.data() : (void*)bufs[0].data(), n); en = errno; }
        else { D.rphase = "readv"; ret = D.rs->readv(iov.data(), (int)iov.size()); en = errno; h.labels.insert("readv"); }
        D.r_in_call = false;
        h.progress++;
        uint64_t dt = photon::now - t0;
        std::ostringstream opn; opn << where(D) << ": " << D.rphase << "(" << n << " bytes) at stream offset " << D.received;
        std::string op = opn.str();
        if (ret < 0) {
            if (en == ETIMEDOUT) {
                if (!D.tmo_us) {
                    if (D.r_ready_streak >= 20) h.violation(op + " timed out after 15 s although the kernel had reported the descriptor readable for the last " + std::to_string(D.r_ready_streak * 50) + " ms (a readiness event was lost)");
                    else h.kernel_stall = op + " timed out after 15 s and the descriptor is still not readable";
                    D.reader_failed = true; break;
                }
                if (dt + 1000 < D.tmo_us) h.violation(op + " reported ETIMEDOUT after " + std::to_string(dt) + " us, the stream timeout is " + std::to_string(D.tmo_us));
                // bytes already placed by a read()/readv() that timed out: the longest prefix that equals the stream
                size_t k = 0, pos = 0; bool stop = false;
                for (auto& b : bufs) { for (size_t j = 0; j < b.size(); j++, pos++) { if (b[j] == content(D.conn, D.d, D.received + pos)) k = pos + 1; else { stop = true; break; } } if (stop) break; }
                if (r[0] == R_RECV && k) h.violation(op + " failed with ETIMEDOUT but placed " + std::to_string(k) + " bytes in the buffer");
                D.received += k;
                h.labels.insert(k ? "read_timed_out_with_partial_data" : "read_timed_out");
                continue;       // a timeout does not end the stream
            }
            if (!D.aborting) h.violation(op + " failed with errno " + std::to_string(en) + " on a connection nobody closed");
            else h.labels.insert("read_failed_after_peer_closed");
            D.reader_failed = true; break;
        }
        if ((size_t)ret > n) { h.violation(op + " returned " + std::to_string(ret)); D.reader_failed = true; break; }
        if (!check_bytes(D, bufs, (size_t)ret, op)) { D.reader_failed = true; break; }
        D.received += (uint64_t)ret;
        if (dt > 300) h.waiting_readers++;
        if (n == 0) continue;
        if (ret == 0) { D.saw_eof = true; h.labels.insert("eof_seen"); break; }
        if (r[0] != R_RECV && (size_t)ret < n) {
            // a short read()/readv() means the peer closed: the next call must report end of stream
            unsigned char one; D.rphase = "recv after a short read";
            ssize_t z = D.rs->recv(&one, 1); int zen = errno;
            if (z > 0) { h.violation(op + " returned " + std::to_string(ret) + " of " + std::to_string(n) + " bytes although more data followed (the peer had not closed)"); D.reader_failed = true; break; }
            if (z < 0 && !D.aborting && !(zen == ETIMEDOUT && D.tmo_us)) h.violation(op + " was short and the following recv failed with errno " + std::to_string(zen));
            if (z == 0) { D.saw_eof = true; h.labels.insert("short_read_at_eof"); }
            break;
        }
    }
    D.rphase = "finished"; D.reader_done = true;
}

Outcome run_case(const Case& c) {
    static bool once = (signal(SIGPIPE, SIG_IGN), set_log_output_level(ALOG_AUDIT + 1), set_log_output(log_output_null), true);
    (void)once;
    long engine = c.cfg.at(0), kind = c.cfg.at(1), nconn = std::max<long>(1, c.cfg.at(2)), small = c.cfg.at(3);
    if (photon::init(engine ? INIT_EVENT_EPOLL_NG : INIT_EVENT_EPOLL, INIT_IO_NONE) != 0) { Outcome o; o.status = Outcome::INCONCLUSIVE; o.msg = "photon::init failed"; return o; }
    if (kind == 2 && et_poller_init() < 0) { photon::fini(); Outcome o; o.status = Outcome::INCONCLUSIVE; o.msg = "et_poller_init failed"; return o; }
    H h;
    h.dirs.resize((size_t)nconn * 2);
    std::atomic<bool> case_done{false};
    std::thread watchdog([&]() {
        long last = -1; int still = 0;
        while (!case_done && still < 6000) { std::this_thread::sleep_for(std::chrono::milliseconds(10)); long p = h.progress.load(); if (p != last) { last = p; still = 0; } else still++; }
        if (case_done) return;
        std::ostringstream o;
        for (auto& D : h.dirs) { if (!D.writer_done) o << " [" << where(D) << " writer in " << D.wphase << " at offset " << D.written << "]"; if (!D.reader_done) o << " [" << where(D) << " reader in " << D.rphase << " at offset " << D.received << "]"; }
        vf::finish_now(Outcome::violation("no socket call returned for 60 s (every stream timeout is at most 15 s), threads still blocked:" + o.str() + (h.first_violation.empty() ? "" : "; earlier: " + h.first_violation)));
    });
    std::string upath = "/verif/build/scratch/c10-" + std::to_string(getpid()) + ".sock";
    ISocketServer* server = kind == 1 ? new_uds_server(true) : kind == 2 ? new_et_tcp_socket_server() : new_tcp_socket_server();
    ISocketClient* client = kind == 1 ? new_uds_client() : kind == 2 ? new_et_tcp_socket_client() : new_tcp_socket_client();
    Outcome out;
    auto fail_setup = [&](const std::string& m) { out.status = Outcome::INCONCLUSIVE; out.msg = m; };
    EndPoint ep;
    if (!server || !client) fail_setup("cannot create socket objects");
    else if (kind == 1) { ::unlink(upath.c_str()); if (server->bind(upath.c_str()) != 0 || server->listen(64) != 0) fail_setup("uds bind/listen failed"); }
    else { if (server->bind_v4localhost(0) != 0 || server->listen(64) != 0) fail_setup("tcp bind/listen failed"); else ep = server->getsockname(); }
    std::vector<ISocketStream*> cs((size_t)nconn, nullptr), ss((size_t)nconn, nullptr);
    if (out.status == Outcome::OK) {
        client->timeout(5000000); server->timeout(5000000);
        for (long i = 0; i < nconn && out.status == Outcome::OK; i++) {
            cs[i] = kind == 1 ? client->connect(upath.c_str()) : client->connect(ep);
            if (!cs[i]) { fail_setup("connect failed, errno " + std::to_string(errno)); break; }
            ss[i] = server->accept();
            if (!ss[i]) { fail_setup("accept failed, errno " + std::to_string(errno)); break; }
            auto& row = c.S("conn").at((size_t)i);
            uint64_t tmo = row.at(0) ? (uint64_t)row.at(0) * 1000 : 0;
            for (auto s : {cs[i], ss[i]}) {
                s->timeout(tmo ? tmo : 15000000ULL);
                if (small) { s->setsockopt<int>(SOL_SOCKET, SO_SNDBUF, 1024); s->setsockopt<int>(SOL_SOCKET, SO_RCVBUF, 1024); }
            }
            for (int d = 0; d < 2; d++) {
                Dir& D = h.dirs[(size_t)i * 2 + d];
                D.h = &h; D.conn = (int)i; D.d = d; D.tmo_us = tmo; D.aborting = row.at(1) != 0;
                D.ws = d == 0 ? cs[i] : ss[i]; D.rs = d == 0 ? ss[i] : cs[i];
            }
        }
    }
    if (out.status == Outcome::OK) {
        std::vector<join_handle*> jh;
        // endpoint bookkeeping: an endpoint (client or server side of a connection) is closed when both of its
        // threads are done; on an aborting connection the early-closing endpoint's reader does not drain.
        std::vector<int> ep_left((size_t)nconn * 2, 2);      // [conn*2 + side], side 0 client, 1 server
        auto endpoint_done = [&](long i, int side) {
            if (--ep_left[(size_t)i * 2 + side] == 0) { auto& sp = side == 0 ? cs[i] : ss[i]; delete sp; sp = nullptr; h.labels.insert("endpoint_closed"); }
        };
        for (long i = 0; i < nconn; i++) for (int d = 0; d < 2; d++) {
            Dir* D = &h.dirs[(size_t)i * 2 + d];
            long abort_side = c.S("conn").at((size_t)i).at(1);        // 1: client closes early, 2: server closes early
            int wside = d == 0 ? 0 : 1, rside = d == 0 ? 1 : 0;
            bool reader_drains = !(abort_side == rside + 1);
            bool writer_shuts = !(abort_side == wside + 1);
            const auto* wp = &c.S("w" + std::to_string(i) + "_" + std::to_string(d));
            const auto* rp = &c.S("r" + std::to_string(i) + "_" + std::to_string(d));
            jh.push_back(thread_enable_join(thread_create11([D, wp, writer_shuts, i, wside, &endpoint_done]() { run_writer(*D, *wp, writer_shuts); endpoint_done(i, wside); })));
            jh.push_back(thread_enable_join(thread_create11([D, rp, reader_drains, i, rside, &endpoint_done]() { run_reader(*D, *rp, reader_drains); endpoint_done(i, rside); })));
        }
        // monitor: every 50 ms, for each call that is still blocked, ask the kernel whether its descriptor is ready.  A timeout
        // counts as a lost readiness event only if the descriptor had been ready for at least a second (data that arrives in
        // the instant in which the timeout fires must not be mistaken for it).
        bool monitor_stop = false;
        auto mon = thread_enable_join(thread_create11([&]() {
            while (!monitor_stop) {
                for (auto& D : h.dirs) {
                    if (D.w_in_call && D.ws && ready_now(D.ws, POLLOUT)) D.w_ready_streak++; else D.w_ready_streak = 0;
                    if (D.r_in_call && D.rs && ready_now(D.rs, POLLIN)) D.r_ready_streak++; else D.r_ready_streak = 0;
                }
                thread_usleep(50000);
            }
        }));
        for (auto j : jh) thread_join(j);
        monitor_stop = true; thread_interrupt((thread*)mon, EINTR); thread_join(mon);
        // ---- end-of-case oracle
        for (auto& D : h.dirs) {
            if (D.received > D.attempted) h.violation(where(D) + ": the reader received " + std::to_string(D.received) + " bytes, the writer wrote at most " + std::to_string(D.attempted));
            if (!D.aborting && D.saw_eof && !D.writer_failed && D.received != D.written)
                h.violation(where(D) + ": end of stream after " + std::to_string(D.received) + " bytes, the writer completed " + std::to_string(D.written) + " before shutting down");
            if (!D.aborting && !D.tmo_us && !D.saw_eof && !D.reader_failed) h.violation(where(D) + ": the reader finished without seeing the end of the stream");
        }
    }
    for (auto s : cs) delete s;
    for (auto s : ss) delete s;
    delete client; delete server;
    ::unlink(upath.c_str());
    if (kind == 2) et_poller_fini();
    photon::fini();
    case_done = true; watchdog.join();
    if (out.status != Outcome::OK) return out;
    if (!h.first_violation.empty()) return Outcome::violation(h.first_violation);
    if (!h.kernel_stall.empty()) { out.status = Outcome::INCONCLUSIVE; out.msg = "the kernel reported no progress on a descriptor for 15 s (not attributable to the engine)"; return out; }
    uint64_t total = 0; for (auto& D : h.dirs) total += D.received;
    out.nontrivial = h.waiting_writers > 0 && h.waiting_readers > 0;
    if (h.waiting_writers) out.label("a_writer_waited_for_readiness");
    if (h.waiting_readers) out.label("a_reader_waited_for_readiness");
    for (auto& l : h.labels) out.label(l);
    out.label(engine ? "engine:epoll-ng" : "engine:epoll");
    out.label(kind == 0 ? "kind:tcp" : kind == 1 ? "kind:uds" : "kind:et-tcp");
    out.label(nconn > 16 ? "connections:>16" : nconn > 4 ? "connections:5-16" : "connections:1-4");
    if (total > 200000) out.label("bytes:>200k");
    return out;
}

rc::Gen<Case> gen_case(const vf::Options& opt) {
    bool thorough = opt.tier == 1;
    return rc::gen::exec([=]() {
        Case c;
        long engine = *vf::range(0, 1), kind = *rc::gen::weightedOneOf<long>({{3, rc::gen::just<long>(0)}, {2, rc::gen::just<long>(1)}, {2, rc::gen::just<long>(2)}});
        long nconn = *rc::gen::weightedOneOf<long>({{5, vf::range(1, 3)}, {2, vf::range(4, 6)}, {thorough ? 2 : 0, vf::range(17, 24)}});
        c.cfg = {engine, kind, nconn, *rc::gen::weightedOneOf<long>({{4, rc::gen::just<long>(1)}, {1, rc::gen::just<long>(0)}})};
        long budget = nconn > 6 ? 20000 : 120000;        // bytes per direction, keeps big fan-outs affordable
        for (long i = 0; i < nconn; i++) {
            long tmo = *rc::gen::weightedOneOf<long>({{4, rc::gen::just<long>(0)}, {1, vf::range(30, 80)}});
            long ab = *rc::gen::weightedOneOf<long>({{8, rc::gen::just<long>(0)}, {1, vf::range(1, 2)}});
            c.S("conn").push_back({tmo, ab});
            for (int d = 0; d < 2; d++) {
                std::vector<std::vector<long>> w, r;     // (c.S() may move the sections: fill locals, store at the end)
                long nw = *vf::range(0, 6), total = 0;
                for (long k = 0; k < nw; k++) {
                    long op = *rc::gen::weightedOneOf<long>({{2, rc::gen::just<long>(W_SEND)}, {3, rc::gen::just<long>(W_WRITE)}, {3, rc::gen::just<long>(W_WRITEV)}, {2, rc::gen::just<long>(W_PAUSE)}});
                    if (op == W_PAUSE) { w.push_back({op, tmo ? *rc::gen::weightedOneOf<long>({{1, vf::range(1, 2000)}, {1, rc::gen::just<long>(tmo * 4000)}}) : *vf::range(1, 5000)}); continue; }
                    long sz = *rc::gen::weightedOneOf<long>({{1, rc::gen::just<long>(0)}, {3, vf::range(1, 200)}, {3, vf::range(201, 9000)}, {3, vf::range(9001, 70000)}, {1, vf::range(70001, 260000)}});
                    sz = std::min(sz, std::max<long>(0, budget - total)); total += sz;
                    w.push_back({op, sz, *vf::range(1, 6), *vf::range(0, 1000000)});
                }
                long nr = *vf::range(0, 6);
                for (long k = 0; k < nr; k++) {
                    long op = *rc::gen::weightedOneOf<long>({{3, rc::gen::just<long>(R_RECV)}, {3, rc::gen::just<long>(R_READ)}, {3, rc::gen::just<long>(R_READV)}, {2, rc::gen::just<long>(R_PAUSE)}});
                    if (op == R_PAUSE) { r.push_back({op, tmo ? *rc::gen::weightedOneOf<long>({{1, vf::range(1, 2000)}, {1, rc::gen::just<long>(tmo * 4000)}}) : *vf::range(1, 5000)}); continue; }
                    long sz = *rc::gen::weightedOneOf<long>({{1, rc::gen::just<long>(0)}, {2, vf::range(1, 16)}, {3, vf::range(17, 3000)}, {3, vf::range(3001, 66000)}});
                    r.push_back({op, sz, *vf::range(1, 6), *vf::range(0, 1000000)});
                }
                c.S("w" + std::to_string(i) + "_" + std::to_string(d)) = w;
                c.S("r" + std::to_string(i) + "_" + std::to_string(d)) = r;
            }
        }
        return c;
    });
}

std::string describe(const Case& c) {
    std::ostringstream o;
    o << "engine=" << (c.cfg[0] ? "epoll-ng" : "epoll") << " kind=" << (c.cfg[1] == 0 ? "tcp" : c.cfg[1] == 1 ? "uds" : "edge-triggered tcp") << " connections=" << c.cfg[2] << " SO_SNDBUF/RCVBUF=" << (c.cfg[3] ? "minimum" : "default") << "\n";
    static const char* wn[] = {"send", "write", "writev", "pause"}; static const char* rn[] = {"recv", "read", "readv", "pause"};
    for (long i = 0; i < c.cfg[2] && i < (long)c.S("conn").size(); i++) {
        auto& row = c.S("conn")[i];
        o << " conn" << i << ": timeout " << (row[0] ? std::to_string(row[0]) + " ms" : std::string("15 s")) << (row[1] == 1 ? ", client endpoint closes early" : row[1] == 2 ? ", server endpoint closes early" : "") << "\n";
        for (int d = 0; d < 2; d++) {
            o << "   " << (d == 0 ? "c->s" : "s->c") << " writer:";
            for (auto& r : c.S("w" + std::to_string(i) + "_" + std::to_string(d))) { if (r.empty()) continue; o << " " << wn[r[0] % 4] << "(" << r[1]; if (r[0] == W_WRITEV) o << "/" << r[2] << "seg"; o << ")"; }
            o << " | reader:";
            for (auto& r : c.S("r" + std::to_string(i) + "_" + std::to_string(d))) { if (r.empty()) continue; o << " " << rn[r[0] % 4] << "(" << r[1]; if (r[0] == R_READV) o << "/" << r[2] << "seg"; o << ")"; }
            o << "\n";
        }
    }
    return o.str();
}
}  // namespace

int main(int argc, char** argv) {
    vf::Harness h;
    h.prop = "C10";
    h.gen = gen_case;
    h.run = run_case;
    h.desc = describe;
    h.fork_per_case = true;
    h.persistent_child = true;
    return vf::pbt_main(argc, argv, h);
}
