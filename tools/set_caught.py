#!/usr/bin/env python3
"""set_caught.py <SEED> <text> — record which check catches a confirmed seeded change (meta.json: caught_by)."""
import json, sys
p = '/verif/seeded/%s/meta.json' % sys.argv[1]
m = json.load(open(p)); m['caught_by'] = sys.argv[2]
json.dump(m, open(p, 'w'), indent=1)
