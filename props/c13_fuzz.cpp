// C13 (arbitrary input) — libFuzzer target.  Input: message bytes | frag1 | frag2 | flags (bit0 request, bit1 HEAD response).
// Oracle: the outcome tuple (return-code class, start line, header multimap, body bytes, last read code) must be identical
// across fill patterns of the unused part of the caller's buffer at one fragmentation (detects any dependence on bytes
// outside the message); recv() calls are bounded (endless loop); ASan/UBSan on exact-size buffers, also at a second split.
#include "fuzz.h"
#include "c13_common.h"

using namespace c13;

extern "C" int LLVMFuzzerTestOneInput(const uint8_t* data, size_t size) {
    static bool quiet = (set_log_output_level(ALOG_AUDIT + 1), set_log_output(log_output_null), true);
    (void)quiet;
    vfz::begin_case();
    if (size < 4) return 0;
    uint8_t flags = data[size - 1], f2 = data[size - 2], f1 = data[size - 3];
    bool is_req = flags & 1, head = flags & 2;
    std::string msg((const char*)data, size - 3);
    uint16_t cap = 40000;
    std::vector<size_t> fa = {(size_t)f1 + 1}, fb = {(size_t)(f2 % 7) + 1, (size_t)f2 + 1};
    // same read() sizes in both runs: for malformed input the statement only speaks about the split into recv() results
    std::vector<size_t> rd = {(size_t)(f1 % 5) * 61 + 3, 300};
    Parsed a = parse_message(is_req, msg, fa, cap, 0x00, rd, head);
    // Same split, other fill: any difference means the result depends on bytes outside the message.  (Independence of the
    // split itself is only claimed for valid messages and is checked by the grammar-based part; a third run with another
    // split is made for memory safety and the step bound only.)
    Parsed b = parse_message(is_req, msg, fa, cap, '\r', rd, head);      // CR / ':' / digits are the bytes a parser running past the end reacts to
    Parsed b2 = parse_message(is_req, msg, fa, cap, (flags & 4) ? ':' : '7', rd, head);
    if (b2.outcome() != a.outcome() && !(b2.enobufs && a.enobufs)) b = b2;
    // a re-used buffer that still holds this very message (keep-alive repeat): what follows the received bytes then looks
    // exactly like the rest of the message
    Parsed st = parse_message(is_req, msg, fa, cap, 0x00, rd, head, &msg);
    if (st.outcome() != a.outcome() && !(st.enobufs && a.enobufs)) b = st;
    Parsed c3 = parse_message(is_req, msg, fb, cap, 0x55, rd, head);
    if (c3.bound_hit) vfz::fail("endless loop: recv() called more than 10 x input length + 100 times");
    if (a.bound_hit || b.bound_hit) vfz::fail("endless loop: recv() called more than 10 x input length + 100 times");
    // a genuine "message larger than the buffer" shows on every run of the same input; ENOBUFS on one side only is a difference
    if (a.enobufs && b.enobufs) { vfz::label("enobufs"); return 0; }
    vfz::label(a.rc == 0 ? "header_accepted" : a.rc == 1 ? "end_of_stream" : "rejected");
    if (a.rc == 0) vfz::nontrivial(data, size, (is_req ? "request " : "response ") + a.start.substr(0, 40) + " headers=" + std::to_string(a.headers.size()) + " body=" + std::to_string(a.body.size()));
    if (a.outcome() != b.outcome())
        vfz::fail("outcome depends on bytes outside the message (same input, same split, different fill of the unused buffer):\n  A(fill 00): " + a.outcome().substr(0, 400) +
                  "\n  B(fill CR/':'/'7' or the same message): " + b.outcome().substr(0, 400));
    return 0;
}
