// C13 — HTTP/1.1 framing: parse independent of fragmentation, body bytes exact; writer -> reader round trip.
#include "pbt.h"
#include "c13_common.h"

using namespace vf;
using namespace c13;

namespace {

std::string bytes_of(long len, long seed) { std::string s((size_t)len, 0); for (long i = 0; i < len; i++) s[i] = (char)((seed * 131 + i * 7 + (i >> 5)) & 0xff); return s; }
std::string token(long len, long seed, bool mixed) {
    static const char* al = "abcdefghijklmnopqrstuvwxyz0123456789-";
    std::string s; for (long i = 0; i < len; i++) { char ch = al[(seed * 17 + i * 5) % 37]; if (mixed && ((seed + i) & 1) && ch >= 'a' && ch <= 'z') ch -= 32; s.push_back(ch); } return s;
}
std::string lower(std::string s) { for (auto& ch : s) if (ch >= 'A' && ch <= 'Z') ch += 32; return s; }

// cfg: [mode (0 parse valid message, 1 writer->reader), is_request, framing (0 content-length, 1 chunked, 2 close-delimited), body_len, body_seed, cap, verb/status, fill]
// hdr: rows [name_len, name_seed, value_len, value_seed, mixed_case, dup_of(-1 none)]
// chunk: one row of chunk sizes (chunked only; the rest of the body goes into a final chunk)
// frag: one row of recv() fragment sizes;  rd: one row of body read sizes
struct Built { std::string wire, start, body; std::vector<std::pair<std::string, std::string>> headers; bool split_terminator = false, split_chunk_line = false; int nchunks = 0; };

Built build_message(const Case& c) {
    Built b;
    bool is_req = c.cfg.at(1) != 0; long framing = c.cfg.at(2);
    b.body = bytes_of(c.cfg.at(3), c.cfg.at(4));
    static const char* verbs[] = {"GET", "POST", "PUT", "DELETE", "OPTIONS", "PATCH"};
    std::string tgt = "/" + token(1 + c.cfg.at(6) % 20, c.cfg.at(6), false) + "?q=" + token(c.cfg.at(6) % 7, 3, false);
    if (is_req) { b.start = std::string(verbs[c.cfg.at(6) % 6]) + " " + tgt + " 1.1"; b.wire = std::string(verbs[c.cfg.at(6) % 6]) + " " + tgt + " HTTP/1.1\r\n"; }
    else { long code = 100 + c.cfg.at(6) % 500; if (code == 204 || code == 304 || code < 200) code = 200; b.start = "1.1 " + std::to_string(code) + " Reason " + token(c.cfg.at(6) % 9, 5, true); b.wire = "HTTP/1.1 " + std::to_string(code) + " Reason " + token(c.cfg.at(6) % 9, 5, true) + "\r\n"; }
    std::vector<std::pair<std::string, std::string>> hs;
    for (auto& r : c.S("hdr")) {
        std::string name = "X-" + token(r.at(0), r.at(1), r.at(4) != 0);
        if (r.at(5) >= 0 && (size_t)r.at(5) < hs.size()) name = hs[(size_t)r.at(5)].first;       // duplicate name (possibly other case below)
        if (r.at(5) >= 0 && r.at(4)) { for (auto& ch : name) if (ch >= 'a' && ch <= 'z') ch -= 32; }
        std::string value = token(r.at(2), r.at(3), true);
        hs.push_back({name, value});
    }
    if (framing == 0) hs.push_back({c.cfg.at(4) & 1 ? "Content-Length" : "content-length", std::to_string(b.body.size())});
    else if (framing == 1) hs.push_back({"Transfer-Encoding", "chunked"});
    else hs.push_back({"Connection", "close"});
    for (auto& kv : hs) b.wire += kv.first + ": " + kv.second + "\r\n";
    b.wire += "\r\n";
    b.headers = hs;
    if (framing == 1) {
        size_t off = 0;
        std::vector<long> cs = c.S("chunk").empty() ? std::vector<long>() : c.S("chunk")[0];
        char tmp[32];
        for (long sz : cs) {
            size_t n = std::min<size_t>((size_t)std::max<long>(1, sz), b.body.size() - off);
            if (!n) break;
            snprintf(tmp, sizeof tmp, (off & 1) ? "%zX\r\n" : "%zx\r\n", n);
            b.wire += tmp; b.wire.append(b.body, off, n); b.wire += "\r\n"; off += n; b.nchunks++;
        }
        if (off < b.body.size()) { snprintf(tmp, sizeof tmp, "%zx\r\n", b.body.size() - off); b.wire += tmp; b.wire.append(b.body, off, std::string::npos); b.wire += "\r\n"; b.nchunks++; }
        b.wire += "0\r\n\r\n";
    } else b.wire += b.body;
    return b;
}

std::vector<size_t> row(const Case& c, const char* n) { std::vector<size_t> v; if (!c.S(n).empty()) for (long x : c.S(n)[0]) v.push_back((size_t)std::max<long>(1, x)); return v; }

Outcome run_case(const Case& c) {
    static bool quiet = (set_log_output_level(ALOG_AUDIT + 1), set_log_output(log_output_null), true);
    (void)quiet;
    Outcome out;
    long mode = c.cfg.at(0);
    bool is_req = c.cfg.at(1) != 0;
    uint16_t cap = (uint16_t)c.cfg.at(5);
    if (mode == 1) {
        // ---- writer -> reader: body written through the library's fixed-length / chunked writer, then read back
        bool chunked = c.cfg.at(2) == 1;
        std::string body = bytes_of(c.cfg.at(3), c.cfg.at(4));
        MockSocket wsock; wsock.write_chunk = (size_t)c.cfg.at(7);
        char* wbuf = (char*)malloc(cap);
        {
            PResp resp(wbuf, cap);
            resp.reset(wbuf, cap, false, &wsock, false, http::Verb::GET);
            resp.set_result(200);
            if (chunked) resp.headers.insert("Transfer-Encoding", "chunked"); else resp.headers.content_length(body.size());
            size_t off = 0; auto ws = row(c, "rd"); size_t k = 0;
            while (off < body.size()) {
                size_t n = std::min(body.size() - off, ws.empty() ? body.size() : ws[k++ % ws.size()]);
                ssize_t w = resp.write(body.data() + off, n);
                if (w != (ssize_t)n) { free(wbuf); return Outcome::violation("body writer accepted " + std::to_string(w) + " of " + std::to_string(n) + " bytes"); }
                off += n;
            }
            if (body.empty()) resp.send();
            if (chunked) resp.write(nullptr, 0);     // final zero-length chunk
            resp.reset((ISocketStream*)nullptr, false);
        }
        free(wbuf);
        Parsed p = parse_message(false, wsock.out, row(c, "frag"), cap, 0x5A, row(c, "chunk"));
        if (p.enobufs) { out.status = Outcome::INCONCLUSIVE; out.msg = "ENOBUFS"; return out; }
        if (p.rc != 0) return Outcome::violation("the library's reader rejected what the library's writer produced (rc " + std::to_string(p.rc) + ")");
        if (p.body != body) return Outcome::violation("writer->reader: body differs (" + std::to_string(p.body.size()) + " vs " + std::to_string(body.size()) + " bytes)");
        if (p.read_rcs.empty() || p.read_rcs.back() != 0) return Outcome::violation("writer->reader: the read after the body did not report end-of-body");
        out.nontrivial = chunked && body.size() > 0;
        out.label(chunked ? "roundtrip:chunked" : "roundtrip:length");
        return out;
    }
    Built b = build_message(c);
    auto frags = row(c, "frag"); auto rds = row(c, "rd");
    bool boundary = c.cfg.size() > 8 && c.cfg[8] != 0;
    if (boundary) {
        // index-boundary family: the buffer is sized so that (received bytes + 8 bytes of index per header) lands
        // within a few bytes of the capacity; every delivery must then either be refused (ENOBUFS) or parse correctly
        long want = (long)b.wire.size() + 8 * (long)b.headers.size() + (c.cfg[8] - 1000);
        cap = (uint16_t)std::max<long>(6000, std::min<long>(65535, want));
    }
    Parsed ref = parse_message(is_req, b.wire, {}, cap, 0x00, {});
    if (ref.enobufs && boundary) { out.label("index_boundary:refused"); out.nontrivial = true; return out; }
    if (ref.enobufs) { out.status = Outcome::INCONCLUSIVE; out.msg = "ENOBUFS"; return out; }
    if (boundary) out.label("index_boundary:accepted");
    if (ref.rc != 0) return Outcome::violation("a valid message was rejected (rc " + std::to_string(ref.rc) + ") when delivered in one piece");
    // ---- against the generated message
    if (ref.start != b.start) return Outcome::violation("start line parsed as '" + ref.start + "', generated '" + b.start + "'");
    {
        // header multimap: same multiset of (lower(name), value); duplicates preserved; case-insensitive lookup
        std::multiset<std::pair<std::string, std::string>> a, e;
        for (auto& kv : ref.headers) a.insert({lower(kv.first), kv.second});
        for (auto& kv : b.headers) e.insert({lower(kv.first), kv.second});
        if (a != e) return Outcome::violation("parsed header multimap differs from the generated one (" + std::to_string(a.size()) + " vs " + std::to_string(e.size()) + " entries)");
    }
    if (ref.body != b.body) return Outcome::violation("body differs: read " + std::to_string(ref.body.size()) + " bytes, generated " + std::to_string(b.body.size()));
    if (ref.read_rcs.empty() || ref.read_rcs.back() != 0) return Outcome::violation("the read after the body returned " + std::to_string(ref.read_rcs.empty() ? -99 : ref.read_rcs.back()) + ", not end-of-body");
    // ---- same result for {generated pieces, 1-byte pieces}, other read sizes, other buffer fill
    // v 2/3: the same deliveries into a re-used buffer that still holds this very message (keep-alive repeat): bytes
    // after the received ones then look exactly like the rest of the message
    for (int v = 0; v < 4; v++) {
        if (boundary && (v & 1)) continue;      // (tens of thousands of 1-byte recvs add nothing at this boundary)
        Parsed p = parse_message(is_req, b.wire, (v & 1) == 0 ? frags : std::vector<size_t>{1}, cap, v == 0 ? 0xA5 : 0xFF, rds, false, v >= 2 ? &b.wire : nullptr);
        if (p.enobufs) { out.label("enobufs_variant"); continue; }
        if (p.bound_hit) return Outcome::violation("endless loop: recv called more than 10x the input length");
        if (p.outcome() != ref.outcome())
            return Outcome::violation(std::string("result depends on fragmentation (") + ((v & 1) == 0 ? "generated pieces" : "1-byte pieces") + std::string(v >= 2 ? ", buffer re-used after the same message" : "") + "): " + p.outcome().substr(0, 300) + "  VS one piece: " + ref.outcome().substr(0, 300));
    }
    // labels
    size_t hdr_end = b.wire.find("\r\n\r\n") + 4, posn = 0, fi = 0;
    while (posn < b.wire.size() && !frags.empty()) { posn += frags[fi++ % frags.size()]; if (posn > hdr_end - 4 && posn < hdr_end) b.split_terminator = true; }
    out.nontrivial = boundary || b.split_terminator || b.nchunks >= 2 || (!frags.empty() && c.cfg.at(2) == 1);
    if (b.split_terminator) out.label("terminator_split");
    if (b.nchunks >= 2) out.label("multi_chunk");
    static const char* fn[] = {"content_length", "chunked", "close_delimited"};
    out.label(std::string("framing:") + fn[c.cfg.at(2)]);
    out.label(is_req ? "request" : "response");
    return out;
}

rc::Gen<Case> gen_case(const Options&) {
    return rc::gen::exec([]() {
        Case c;
        long mode = *rc::gen::weightedOneOf<long>({{4, rc::gen::just<long>(0)}, {1, rc::gen::just<long>(1)}});
        long is_req = *range(0, 1);
        long framing = is_req ? *range(0, 1) : *range(0, 2);
        if (mode == 1) framing = *range(0, 1);
        long blen = *rc::gen::weightedOneOf<long>({{1, rc::gen::just<long>(0)}, {4, range(1, 64)}, {3, range(65, 3000)}, {2, range(3001, 20000)}});
        long cap = *range(32 * 1024, 65535);
        c.cfg = {mode, is_req, framing, blen, *range(0, 999), cap, *range(0, 9999), *rc::gen::weightedOneOf<long>({{2, rc::gen::just<long>(0)}, {2, range(1, 64)}})};
        if (mode == 0 && *range(0, 6) == 0) {
            // index-boundary family: hundreds to thousands of tiny headers, a small body that arrives together with the end
            // of the header block, and a buffer whose capacity is within +-40 bytes of (message + 8 bytes of index per header)
            long nhb = *range(650, 2600);
            c.cfg[2] = 0; c.cfg[3] = *range(1, 60);
            c.cfg.push_back(1000 + *range(-40, 40));
            for (long i = 0; i < nhb; i++) c.S("hdr").push_back({*range(1, 3), *range(0, 999), *range(0, 3), *range(0, 999), 0, -1});
            { long n = *range(0, 3); std::vector<long> r; for (long i = 0; i < n; i++) r.push_back(*range(2000, 5000)); if (n) c.S("frag").push_back(r); }
            return c;
        }
        long nh = *rc::gen::weightedOneOf<long>({{1, rc::gen::just<long>(0)}, {5, range(1, 8)}, {2, range(9, 40)}});
        for (long i = 0; i < nh; i++) c.S("hdr").push_back({*range(1, 24), *range(0, 999), *rc::gen::weightedOneOf<long>({{1, rc::gen::just<long>(0)}, {5, range(1, 40)}, {1, range(41, 150)}}), *range(0, 999), *range(0, 1),
                                                             (i > 0 && *range(0, 5) == 0) ? *range(0, i - 1) : -1});
        if (framing == 1 || mode == 1) { long n = *range(0, 6); std::vector<long> r; for (long i = 0; i < n; i++) r.push_back(*rc::gen::weightedOneOf<long>({{3, range(1, 20)}, {3, range(21, 1500)}, {1, range(1501, 9000)}})); if (n) c.S("chunk").push_back(r); }
        { long n = *range(0, 10); std::vector<long> r; for (long i = 0; i < n; i++) r.push_back(*rc::gen::weightedOneOf<long>({{3, range(1, 4)}, {3, range(5, 80)}, {2, range(81, 5000)}})); if (n) c.S("frag").push_back(r); }
        { long n = *range(0, 5); std::vector<long> r; for (long i = 0; i < n; i++) r.push_back(*rc::gen::weightedOneOf<long>({{2, range(1, 3)}, {3, range(4, 300)}, {2, range(301, 8000)}})); if (n) c.S("rd").push_back(r); }
        return c;
    });
}

std::string describe(const Case& c) {
    std::ostringstream o;
    static const char* fn[] = {"Content-Length", "chunked", "close-delimited"};
    o << (c.cfg[0] ? "writer->reader " : "parse ") << (c.cfg[1] ? "request" : "response") << " framing=" << fn[c.cfg[2]] << " body=" << c.cfg[3] << "B headers=" << c.S("hdr").size() << " buffer=" << c.cfg[5];
    for (const char* s : {"chunk", "frag", "rd"}) if (!c.S(s).empty()) { o << " " << s << "=["; for (long v : c.S(s)[0]) o << v << " "; o << "]"; }
    return o.str();
}
}  // namespace

// --emit-corpus DIR: a few valid messages as libFuzzer seeds (trailer: 2 fragment bytes + flags)
static int emit_corpus(const char* dir) {
    mkdir(dir, 0755);
    int k = 0;
    for (long req = 0; req < 2; req++) for (long fr = 0; fr < 3; fr++) {
        if (req && fr == 2) continue;
        Case c; c.cfg = {0, req, fr, 37, 5, 40000, 7 + fr, 0};
        c.S("hdr").push_back({5, 1, 9, 2, 1, -1}); c.S("hdr").push_back({7, 3, 0, 4, 0, -1});
        if (fr == 1) c.S("chunk").push_back({10, 20});
        Built b = build_message(c);
        std::string f = b.wire; f.push_back((char)3); f.push_back((char)17); f.push_back((char)(req ? 1 : 0));
        std::ofstream(std::string(dir) + "/seed" + std::to_string(k++), std::ios::binary) << f;
    }
    return 0;
}

int main(int argc, char** argv) {
    if (argc == 3 && !strcmp(argv[1], "--emit-corpus")) return emit_corpus(argv[2]);
    Harness h; h.prop = "C13"; h.gen = gen_case; h.run = run_case; h.desc = describe;
    h.fork_per_case = true; h.persistent_child = true;
    return pbt_main(argc, argv, h);
}
