// C09 — go-style channel: a value reported sent is received exactly once, in per-sender order.
#include "lab_common.h"
#include <photon/thread/go.h>

using namespace labc;

namespace {

enum { OP_SEND = 10, OP_TRY_SEND = 11, OP_RECV = 12, OP_TRY_RECV = 13, OP_CLOSE = 14 };

struct H {
    Common C;
    std::unique_ptr<photon::channel<long>> ch;
    long cap = 0;
    std::vector<long> seq;                       // next sequence number per sender actor
    std::map<long, int> sent_ok, sent_failed;    // value -> count (sent_failed: failed by TIMEOUT on an open channel only)
    std::map<long, int> received;
    std::vector<std::map<int, long>> last_seen;  // per receiver: sender -> last seq
    bool close_called = false, close_returned = false;
    std::vector<int> blocked_send, blocked_recv; // actor currently inside send / recv
    std::vector<long> blocked_untimed;
    std::set<std::string> labels;
    bool nt = false;
    int max_parked_senders = 0, max_parked_recv = 0;

    static long mk(int sender, long s) { return (long)sender * 1000000 + s; }

    void on_received(int id, long v) {
        auto& ctl = C.L.ctl;
        int sender = (int)(v / 1000000); long s = v % 1000000;
        if (sender < 0 || sender >= C.nactors() || s <= 0 || s >= seq[sender])
            ctl.violation("actor" + std::to_string(id) + " received " + std::to_string(v) + ", a value nobody sent");
        if (++received[v] > 1) ctl.violation("value " + std::to_string(v) + " was received twice");
        auto it = last_seen[id].find(sender);
        if (it != last_seen[id].end() && it->second >= s)
            ctl.violation("actor" + std::to_string(id) + " received sender " + std::to_string(sender) + "'s value #" + std::to_string(s) + " after #" + std::to_string(it->second));
        last_seen[id][sender] = s;
        if (sent_failed.count(v)) ctl.violation("value " + std::to_string(v) + " was delivered although its send() had returned false");
    }
    void count_parked() {
        int s = 0, r = 0;
        for (int x : blocked_send) s += x;
        for (int x : blocked_recv) r += x;
        max_parked_senders = std::max(max_parked_senders, s); max_parked_recv = std::max(max_parked_recv, r);
        if (s >= 2 || r >= 2) { nt = true; labels.insert(s >= 2 ? "two_senders_overlapped" : "two_receivers_overlapped"); }
    }
    void run_op(int id, const std::vector<long>& r) {
        auto& ctl = C.L.ctl;
        switch (r[0]) {
        case OP_SEND: case OP_TRY_SEND: {
            long v = mk(id, seq[id]++);
            long tmo = r.size() > 1 ? r[1] : -1;
            bool closed_before = close_returned;     // close() had already returned when this send began
            uint64_t dl = tmo < 0 ? 0 : photon::now + (uint64_t)tmo;
            C.st[id].phase = r[0] == OP_SEND ? "send" : "try_send"; C.st[id].phase_arg = tmo;
            bool ok;
            if (r[0] == OP_SEND) {
                blocked_send[id] = 1; blocked_untimed[id] = tmo < 0; count_parked();
                ok = ch->send(v, tmo < 0 ? photon::Timeout() : photon::Timeout((uint64_t)tmo));
                blocked_send[id] = 0;
            } else ok = ch->try_send(v);
            if (ok) {
                sent_ok[v]++;
                // delivered-before-return is legal for an unbuffered hand-off
                if (closed_before) ctl.violation("send returned true on a channel that had been closed before the call");
            } else {
                // A send that fails because of close() may leave its value in the unbuffered hand-off slot, where a
                // later recv still finds it; the statement does not forbid that, so only timeouts on an open channel count.
                if (!close_called) {
                    sent_failed[v]++;
                    if (received.count(v)) ctl.violation("value " + std::to_string(v) + " was delivered although its send() timed out and returned false");
                }
                if (r[0] == OP_SEND) {
                    bool timed_out = tmo >= 0 && photon::now >= dl;
                    if (!close_called && !timed_out)
                        ctl.violation("actor" + std::to_string(id) + ": send returned false although the channel is open and " + (tmo < 0 ? std::string("no timeout was given") : std::string("the timeout has not expired")));
                    labels.insert(close_called ? "send_failed_closed" : "send_timed_out");
                }
            }
            break;
        }
        case OP_RECV: case OP_TRY_RECV: {
            long tmo = r.size() > 1 ? r[1] : -1;
            uint64_t dl = tmo < 0 ? 0 : photon::now + (uint64_t)tmo;
            long v = -1;
            C.st[id].phase = r[0] == OP_RECV ? "recv" : "try_recv"; C.st[id].phase_arg = tmo;
            bool ok;
            if (r[0] == OP_RECV) {
                blocked_recv[id] = 1; blocked_untimed[id] = tmo < 0; count_parked();
                ok = ch->recv(v, tmo < 0 ? photon::Timeout() : photon::Timeout((uint64_t)tmo));
                blocked_recv[id] = 0;
            } else ok = ch->try_recv(v);
            if (ok) on_received(id, v);
            else if (r[0] == OP_RECV) {
                bool timed_out = tmo >= 0 && photon::now >= dl;
                if (!close_called && !timed_out)
                    ctl.violation("actor" + std::to_string(id) + ": recv returned false although the channel is open and " + (tmo < 0 ? std::string("no timeout was given") : std::string("the timeout has not expired")));
                labels.insert(close_called ? "recv_failed_closed" : "recv_timed_out");
            }
            break;
        }
        case OP_CLOSE: {
            C.st[id].phase = "close";
            bool had_items = ch->size() > 0;
            close_called = true;
            ch->close();
            close_returned = true;
            if (had_items) { nt = true; labels.insert("close_with_buffered_items"); }
            break;
        }
        }
    }
    // final accounting: after close + drain every value whose send returned true was received exactly once
    void drain_and_account() {
        auto& ctl = C.L.ctl;
        close_called = true; ch->close(); close_returned = true;
        long v;
        long buffered = (long)ch->size();
        long got = 0;
        while (ch->try_recv(v)) { on_received(C.nactors() - 1 >= 0 ? 0 : 0, v, true); got++; }
        (void)buffered;
        for (auto& kv : sent_ok) {
            auto it = received.find(kv.first);
            if (it == received.end()) ctl.violation("value " + std::to_string(kv.first) + " was reported sent (send returned true) but was never received, even after close() and a drain");
        }
    }
    void on_received(int id, long v, bool drain) {
        // drain by the harness: no per-receiver order claim
        (void)id; (void)drain;
        auto& ctl = C.L.ctl;
        int sender = (int)(v / 1000000); long s = v % 1000000;
        if (sender < 0 || sender >= C.nactors() || s <= 0 || s >= seq[sender]) ctl.violation("drain returned " + std::to_string(v) + ", a value nobody sent");
        if (++received[v] > 1) ctl.violation("value " + std::to_string(v) + " was received twice");
        if (sent_failed.count(v)) ctl.violation("value " + std::to_string(v) + " was delivered although its send() had returned false");
    }
};

Outcome run_case(const Case& c) {
    H h;
    h.cap = c.cfg.at(5);
    h.ch.reset(new photon::channel<long>((size_t)h.cap));
    h.C.setup(c, [&](int id, const std::vector<long>& r) { h.run_op(id, r); });
    int n = h.C.nactors();
    h.seq.assign(n, 1); h.last_seen.resize(n); h.blocked_send.assign(n, 0); h.blocked_recv.assign(n, 0); h.blocked_untimed.assign(n, 0);
    auto& ctl = h.C.L.ctl;
    ctl.on_quiescence = [&]() {
        // blocked partners: a sender and a receiver both parked, a receiver parked with items buffered,
        // a sender parked with a free slot -- all impossible if wake-ups are not lost
        int bs = 0, br = 0;
        for (int i = 0; i < n; i++) if (!h.C.st[i].finished) { bs += h.blocked_send[i]; br += h.blocked_recv[i]; }
        std::ostringstream o;
        o << " (capacity " << h.cap << ", buffered " << h.ch->size() << ", closed " << h.close_called << "):" << h.C.blocked_report();
        if (bs && br) ctl.violation("a sender and a receiver are both parked on the channel at quiescence" + o.str());
        if (br && h.ch->size() > 0) ctl.violation("a receiver is parked although items are buffered" + o.str());
        if (bs && h.cap > 0 && (long)h.ch->size() < h.cap) ctl.violation("a sender is parked although a slot is free" + o.str());
        if ((bs || br) && h.close_called) ctl.violation("threads still parked after close()" + o.str());
        for (int i = 0; i < n; i++) if (!h.C.st[i].finished && !h.blocked_send[i] && !h.blocked_recv[i]) ctl.violation("actor blocked outside send/recv" + o.str());
        for (int i = 0; i < n; i++) if (!h.C.st[i].finished && !h.blocked_untimed[i]) ctl.violation("actor still parked in a TIMED send/recv at quiescence" + o.str());
        // legitimately blocked (no partner ever comes): account for what was delivered so far
        for (auto& kv : h.sent_ok) {
            if (h.received.count(kv.first)) continue;
            // may still sit in the buffer
            if (h.cap == 0) ctl.violation("value " + std::to_string(kv.first) + " reported sent on an unbuffered channel but never received" + o.str());
        }
        ctl.out.nontrivial = h.nt;
        for (auto& l : h.labels) ctl.out.label(l);
        ctl.out.label("ended_with_unmatched_partners");
    };
    h.C.L.run();
    h.drain_and_account();
    Outcome& out = ctl.out;
    out.nontrivial = h.nt;
    for (auto& l : h.labels) out.label(l);
    out.label("capacity:" + std::to_string(h.cap));
    h.C.L.stats_labels(out);
    return out;
}

rc::Gen<Case> gen_case(const vf::Options& opt) {
    bool excl_two_senders_unbuf = opt.has("unbuffered_two_senders");
    bool single_vcpu_buffered = opt.has("buffered_multi_vcpu");
    return rc::gen::exec([=]() {
        Case c;
        long na = gen_common(c, 2, 6, 0);
        long cap = *vf::oneof<long>({0, 0, 1, 2, 4});
        c.cfg.push_back(cap);
        if (single_vcpu_buffered && cap > 0) { c.cfg[0] = 1; for (auto& r : c.S("actor")) r[0] = 0; }
        // family "rendezvous window" (unbuffered only): several receivers parked, one sender with short timed sends, one with
        // try_send bursts and compute pauses - aims at the moments between a value being taken and its sender running again
        if (cap == 0 && !excl_two_senders_unbuf && *vf::range(0, 2) == 0) {
            c.S("actor").clear();
            long nv = c.cfg[0];
            long nrecv = *vf::range(2, 3);
            long nact = nrecv + 2;
            for (long i = 0; i < nact; i++) c.S("actor").push_back({*vf::range(0, nv - 1), 0});
            for (long i = 0; i < nrecv; i++) {
                long n = *vf::range(1, 3);
                for (long k = 0; k < n; k++) c.S("a" + std::to_string(i)).push_back({OP_RECV, *rc::gen::weightedOneOf<long>({{3, rc::gen::just<long>(-1)}, {1, vf::range(200, 3000)}})});
            }
            { auto& prog = c.S("a" + std::to_string(nrecv)); long n = *vf::range(1, 3);
              for (long k = 0; k < n; k++) { if (*vf::range(0, 2) == 0) prog.push_back({OP_YIELD}); prog.push_back({OP_SEND, *vf::range(1, 60)}); } }
            { auto& prog = c.S("a" + std::to_string(nrecv + 1)); long n = *vf::range(2, 5);
              for (long k = 0; k < n; k++) {
                  long kind = *rc::gen::weightedOneOf<long>({{4, rc::gen::just<long>(OP_TRY_SEND)}, {2, rc::gen::just<long>(OP_YIELD)}, {2, rc::gen::just<long>(OP_BURN)}});
                  if (kind == OP_BURN) prog.push_back({kind, *vf::range(1, 80)}); else prog.push_back({kind});
              } }
            c.S("sched") = *gen_schedule(40);
            return c;
        }
        // roles: first half senders, rest receivers, with a few mixed ops
        long senders = 0;
        for (long i = 0; i < na; i++) {
            bool is_sender = *vf::range(0, 1) == 0;
            if (cap == 0 && excl_two_senders_unbuf && is_sender && senders >= 1) is_sender = false;
            if (is_sender) senders++;
            long n = *vf::range(1, 4);
            auto& prog = c.S("a" + std::to_string(i));
            for (long k = 0; k < n; k++) {
                long kind;
                if (is_sender) kind = *rc::gen::weightedOneOf<long>({{6, rc::gen::just<long>(OP_SEND)}, {2, rc::gen::just<long>(OP_TRY_SEND)}, {1, rc::gen::just<long>(OP_YIELD)}, {1, rc::gen::just<long>(OP_SLEEP)}, {1, rc::gen::just<long>(OP_CLOSE)}});
                else kind = *rc::gen::weightedOneOf<long>({{6, rc::gen::just<long>(OP_RECV)}, {2, rc::gen::just<long>(OP_TRY_RECV)}, {1, rc::gen::just<long>(OP_YIELD)}, {1, rc::gen::just<long>(OP_SLEEP)}, {1, rc::gen::just<long>(OP_CLOSE)}});
                if (kind == OP_SEND || kind == OP_RECV) prog.push_back({kind, *rc::gen::weightedOneOf<long>({{4, rc::gen::just<long>(-1)}, {1, rc::gen::just<long>(0)}, {4, vf::range(1, 3000)}})});
                else if (kind == OP_SLEEP) prog.push_back({kind, *gen_duration()});
                else prog.push_back({kind});
            }
        }
        c.S("sched") = *gen_schedule(40);
        return c;
    });
}

std::string opname(const std::vector<long>& r) {
    std::ostringstream o;
    auto t = [&](long x) { return x < 0 ? std::string("inf") : std::to_string(x); };
    switch (r[0]) {
    case OP_SEND: o << "send(" << t(r[1]) << ")"; break;
    case OP_TRY_SEND: o << "try_send"; break;
    case OP_RECV: o << "recv(" << t(r[1]) << ")"; break;
    case OP_TRY_RECV: o << "try_recv"; break;
    case OP_CLOSE: o << "close"; break;
    default: o << "op" << r[0];
    }
    return o.str();
}
}  // namespace

int main(int argc, char** argv) {
    vf::Harness h;
    h.prop = "C09";
    h.gen = gen_case;
    h.run = run_case;
    h.desc = [](const Case& c) { return describe_common(c, opname); };
    h.fork_per_case = true;
    h.persistent_child = true;     // a child serves cases until one ends abnormally (finish_now), then it is replaced
    return vf::pbt_main(argc, argv, h);
}
