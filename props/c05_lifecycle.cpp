// C05 — thread lifecycle: each thread runs once, on one vCPU at a time; join is exact; stacks are released once.
#include "lab_common.h"
#include <photon/thread/thread11.h>
#include <photon/thread/thread-pool.h>
#include <photon/thread/stack-allocator.h>
#include <photon/thread/go.h>

using namespace labc;

namespace {

enum { OP_SPAWN = 10, OP_JOIN = 11, OP_INTC = 12, OP_MIGC = 13, OP_MIGSELF = 14, OP_PAUSEWS = 15, OP_YIELDTO = 16 };
enum { VIA_CREATE = 0, VIA_CREATE11 = 1, VIA_GO = 2, VIA_POOL = 3 };

struct H;
H* g_h = nullptr;

struct Child {
    int id, parent;
    int via; bool joinable, stealable;
    std::vector<std::pair<long, long>> prog;
    photon::thread* th = nullptr; photon::TPControl* ctrl = nullptr;
    int runs = 0; bool finished = false, active = false, join_started = false, joined = false;
    void* stack = nullptr; bool stack_freed = false;
    int first_vcpu = -1; bool moved = false;
};

struct H {
    Common C;
    std::vector<std::unique_ptr<Child>> kids;
    std::vector<std::vector<int>> kids_of;           // parent actor -> child ids
    std::vector<photon::ThreadPoolBase*> pool;       // per parent actor
    std::map<void*, int> stack_owner;                // stack ptr -> child id (or -1 unknown)
    std::set<void*> live_stacks;
    static void*& tl_last_alloc() { static thread_local void* p = nullptr; return p; }   // per vCPU OS thread: creation is not atomic under preemption
    int alloc_kind = 0;                              // 0 default, 1 pooled
    std::set<std::string> labels;
    bool nt = false;
    std::vector<uint64_t> initial_threads;

    int vcpu_index(photon::vcpu_base* v) { for (int i = 0; i < (int)C.L.vcpus.size(); i++) if (C.L.vcpus[i] == v) return i; return -1; }
    int cur_vcpu() { return vcpu_index(photon::get_vcpu()); }

    static void* c_alloc(void*, size_t sz) {
        void* p = g_h->alloc_kind ? photon::pooled_stack_alloc(nullptr, sz) : photon::default_photon_thread_stack_alloc(nullptr, sz);
        if (p) {
            if (g_h->live_stacks.count(p)) g_h->C.L.ctl.violation("stack allocator handed out a stack that is still in use");
            g_h->live_stacks.insert(p); g_h->stack_owner[p] = -1; tl_last_alloc() = p;
        }
        return p;
    }
    static void c_dealloc(void*, void* p, size_t sz) {
        auto& ctl = g_h->C.L.ctl;
        if (!g_h->live_stacks.count(p)) ctl.violation("a thread stack was released twice (or was never allocated)");
        g_h->live_stacks.erase(p);
        int owner = g_h->stack_owner[p];
        if (owner >= 0) {
            Child& k = *g_h->kids[owner];
            if (!k.finished) ctl.violation("stack of child " + std::to_string(owner) + " released before its entry function returned");
            if (k.joinable && !k.join_started) ctl.violation("stack of joinable child " + std::to_string(owner) + " released before thread_join() was called");
            if (k.stack_freed) ctl.violation("stack of child " + std::to_string(owner) + " released twice");
            k.stack_freed = true;
        }
        if (g_h->alloc_kind) photon::pooled_stack_dealloc(nullptr, p, sz); else photon::default_photon_thread_stack_dealloc(nullptr, p, sz);
    }
    void observe(Child& k) {
        int v = cur_vcpu();
        if (k.first_vcpu < 0) k.first_vcpu = v;
        else if (v != k.first_vcpu && !k.moved) { k.moved = true; nt = true; labels.insert("thread_changed_vcpu"); }
        if (photon::CURRENT != k.th && k.via != VIA_POOL) C.L.ctl.violation("child " + std::to_string(k.id) + ": CURRENT is not the child's own thread");
    }
    void child_body(Child& k) {
        auto& ctl = C.L.ctl;
        if (++k.runs != 1) ctl.violation("entry function of child " + std::to_string(k.id) + " started " + std::to_string(k.runs) + " times");
        if (k.active) ctl.violation("child " + std::to_string(k.id) + " is being executed twice at once");
        k.active = true;
        if (k.via == VIA_POOL) k.th = photon::CURRENT;
        observe(k);
        for (auto& op : k.prog) {
            k.active = false;
            switch (op.first) {
            case 0: photon::thread_yield(); break;
            case 1: photon::thread_usleep((uint64_t)op.second); break;
            case 2: { int v = (int)(op.second % C.L.nvcpu); if (k.via != VIA_POOL) photon::thread_migrate(photon::CURRENT, C.L.vcpus[v]); break; }
            }
            if (k.active) ctl.violation("child " + std::to_string(k.id) + " resumed while already executing (two vCPUs inside one thread)");
            k.active = true;
            observe(k);
        }
        k.active = false;
        k.finished = true;
    }
    static void* child_entry(void* a) { Child* k = (Child*)a; g_h->child_body(*k); return (void*)(long)(k->id * 7 + 1); }

    void do_join(int id, Child& k) {
        auto& ctl = C.L.ctl;
        if (!k.joinable || k.joined) return;
        C.st[id].phase = "join"; C.st[id].phase_arg = k.id;
        bool was_finished = k.finished;
        int kv = k.th && !k.finished ? vcpu_index(photon::get_vcpu(k.th)) : -1;
        k.join_started = true;
        if (k.via == VIA_POOL) pool[id]->join(k.ctrl);
        else {
            void* rv = photon::thread_join((photon::join_handle*)k.th);
            if (k.via == VIA_CREATE && rv != (void*)(long)(k.id * 7 + 1)) ctl.violation("thread_join returned a wrong value for child " + std::to_string(k.id));
        }
        k.joined = true;
        if (!k.finished) ctl.violation("join of child " + std::to_string(k.id) + " returned before its entry function returned");
        if (k.runs != 1) ctl.violation("joined child ran " + std::to_string(k.runs) + " times");
        if (!was_finished && kv >= 0 && kv != cur_vcpu()) { nt = true; labels.insert("join_raced_with_exit_on_other_vcpu"); }
        if (k.via != VIA_POOL && k.stack && !k.stack_freed) ctl.violation("stack of joined child " + std::to_string(k.id) + " was not released by thread_join");
    }
    void run_op(int id, const std::vector<long>& r) {
        auto& ctl = C.L.ctl;
        auto kid = [&](long n) -> Child* { auto& v = kids_of[id]; if (v.empty()) return nullptr; return kids[v[(size_t)n % v.size()]].get(); };
        switch (r[0]) {
        case OP_SPAWN: {
            auto k = std::make_unique<Child>();
            k->id = (int)kids.size(); k->parent = id; k->via = (int)(r.at(1) & 15);
            k->joinable = r.at(2) != 0; k->stealable = r.at(3) != 0;
            if (k->via == VIA_POOL && cur_vcpu() != C.L.actors[id].vcpu) k->via = VIA_CREATE;   // pools stay on the vCPU that created them
            for (size_t i = 4; i + 1 < r.size(); i += 2) k->prog.push_back({r[i], r[i + 1]});
            Child* kp = k.get();
            kids.push_back(std::move(k)); kids_of[id].push_back(kp->id);
            C.st[id].phase = "spawn";
            uint64_t flags = (kp->joinable ? photon::THREAD_JOINABLE : 0) | (kp->stealable ? photon::THREAD_ENABLE_WORK_STEALING : 0);
            tl_last_alloc() = nullptr;
            switch (kp->via) {
            case VIA_CREATE: kp->th = photon::thread_create(&child_entry, kp, 128 * 1024, 0, flags); break;
            case VIA_CREATE11: kp->th = photon::thread_create11(128 * 1024, &child_entry, (void*)kp); if (kp->joinable) photon::thread_enable_join(kp->th); break;
            case VIA_GO: kp->th = photon::go(128 * 1024, [kp] { child_entry(kp); }); if (kp->joinable) photon::thread_enable_join(kp->th); break;
            default:
                kp->joinable = true;            // pool children are always joined (the pool is deleted by the parent)
                if (!pool[id]) pool[id] = photon::new_thread_pool((uint32_t)(r.at(1) >> 4) % 4, 128 * 1024);
                kp->ctrl = pool[id]->thread_create_ex(&child_entry, kp, true);
                break;
            }
            if (kp->via != VIA_POOL) {
                if (!kp->th) ctl.violation("thread creation failed");
                if (void* last_alloc = tl_last_alloc()) {
                    kp->stack = last_alloc;
                    if (live_stacks.count(last_alloc)) { if (stack_owner[last_alloc] == -1) stack_owner[last_alloc] = kp->id; else kp->stack = nullptr; }
                    else {
                        // thread_create11/go run the new thread before returning: a short detached child may already be gone
                        if (!kp->finished) ctl.violation("stack of child " + std::to_string(kp->id) + " released before its entry function returned");
                        if (kp->joinable) ctl.violation("stack of joinable child " + std::to_string(kp->id) + " released before thread_join() was called");
                        kp->stack_freed = true;
                    }
                }
            }
            labels.insert(kp->via == VIA_POOL ? "via:pool" : kp->via == VIA_GO ? "via:go" : kp->via == VIA_CREATE11 ? "via:create11" : "via:create");
            break;
        }
        case OP_JOIN: { Child* k = kid(r.at(1)); if (k) do_join(id, *k); break; }
        case OP_INTC: {
            Child* k = kid(r.at(1));
            if (!k || !k->joinable || k->joined || k->via == VIA_POOL) break;      // only valid handles are addressed
            photon::thread_interrupt(k->th, ERRNOS[r.at(2) % 3]);
            break;
        }
        case OP_MIGC: {
            Child* k = kid(r.at(1));
            if (!k || !k->joinable || k->joined || k->via == VIA_POOL || k->finished) break;
            int v = (int)(r.at(2) % C.L.nvcpu);
            int ret = photon::thread_migrate(k->th, C.L.vcpus[v]);
            if (ret == 0) labels.insert("migrate_other_ok");
            break;
        }
        case OP_YIELDTO: {
            Child* k = kid(r.at(1));
            if (!k || !k->joinable || k->joined || k->via == VIA_POOL || k->finished) break;
            photon::thread_yield_to(k->th);      // fails cleanly unless the child is READY on this vCPU
            break;
        }
        case OP_MIGSELF: { if (pool[id]) break; int v = (int)(r.at(1) % C.L.nvcpu); photon::thread_migrate(photon::CURRENT, C.L.vcpus[v]); if (cur_vcpu() == v) labels.insert("migrate_self_ok"); break; }
        case OP_PAUSEWS: photon::thread_pause_work_stealing(r.at(1) != 0); break;
        }
    }
    void parent_epilogue(int id) {
        auto& ctl = C.L.ctl;
        for (int cid : kids_of[id]) do_join(id, *kids[cid]);
        C.st[id].phase = "waiting for detached children";
        for (int cid : kids_of[id]) {
            Child& k = *kids[cid];
            for (int spins = 0; !k.finished; spins++) { photon::thread_usleep(100); if (spins > 100000) ctl.inconclusive("detached child never finished"); }
        }
        if (pool[id]) { photon::delete_thread_pool(pool[id]); pool[id] = nullptr; }
    }
};

Outcome run_case(const Case& c) {
    H h; g_h = &h;
    h.alloc_kind = (int)c.cfg.at(5);
    photon::set_photon_thread_stack_allocator({&H::c_alloc, nullptr}, {&H::c_dealloc, nullptr});
    h.C.setup(c, [&](int id, const std::vector<long>& r) { h.run_op(id, r); });
    int n = h.C.nactors();
    h.kids_of.resize(n); h.pool.assign(n, nullptr);
    // every parent ends with joining / waiting for its children
    for (int i = 0; i < n; i++) {
        auto body = h.C.L.actors[i].body;
        h.C.L.actors[i].body = [&h, body, i]() { body(); h.C.st[i].finished = false; h.parent_epilogue(i); h.C.st[i].finished = true; };
    }
    auto& ctl = h.C.L.ctl;
    ctl.max_steps = 600000;
    h.initial_threads.assign(3, 0);
    // a vCPU starts with its main thread and its idler (other vCPUs' actors may already have migrated here by the time
    // this vCPU could sample its own count, so the initial value is taken from the definition)
    h.initial_threads.assign(3, 2);
    h.C.L.vcpu_teardown = [&](int v) {
        uint64_t now_n = photon::get_info(photon::INFO_THREAD_NUM);
        if (now_n != h.initial_threads[v]) ctl.violation("vCPU " + std::to_string(v) + " thread count is " + std::to_string(now_n) + " after all threads are done; it was " + std::to_string(h.initial_threads[v]) + " initially");
    };
    ctl.on_quiescence = [&]() {
        std::ostringstream o; o << "quiescence with threads still blocked:" << h.C.blocked_report();
        for (auto& k : h.kids) if (!k->finished) o << " child" << k->id << "(runs=" << k->runs << ")";
        ctl.violation(o.str());
    };
    h.C.L.run();
    for (auto& k : h.kids) {
        if (k->runs != 1 || !k->finished) return Outcome::violation("child " + std::to_string(k->id) + " ran " + std::to_string(k->runs) + " times / finished=" + std::to_string(k->finished));
        if (k->via != VIA_POOL && k->stack && !k->stack_freed) return Outcome::violation("stack of child " + std::to_string(k->id) + " was never released");
    }
    Outcome& out = ctl.out;
    out.nontrivial = h.nt;
    for (auto& l : h.labels) out.label(l);
    out.label(h.alloc_kind ? "alloc:pooled" : "alloc:default");
    h.C.L.stats_labels(out);
    return out;
}

rc::Gen<Case> gen_case(const vf::Options&) {
    return rc::gen::exec([]() {
        Case c;
        long na = gen_common(c, 1, 4, 0, true);
        c.cfg.push_back(*vf::range(0, 1));
        long nv = c.cfg[0];
        if (*vf::range(0, 5) == 0) {
            // family "standby mix": vCPU 1 steals actively and keeps waking up (its idle thread tries to steal each time it goes
            // to sleep), vCPU 2 may be stolen from and mostly sleeps.  An actor on vCPU 0 parks a stealable sleeper on vCPU 2,
            // then sends a second stealable child there (migrated threads wait in the target's standby queue) and interrupts the
            // sleeper from outside (it joins the standby queue behind it while still being in its owner's sleep queue).
            c.cfg[0] = 3; c.cfg[1] = *vf::range(0, 1); c.cfg[2] = 1 + 2 * *vf::range(0, 1); c.cfg[3] = 2 + *vf::range(0, 1);
            c.S("actor").clear();
            c.S("actor").push_back({0, 0}); c.S("actor").push_back({1, 0});
            long extra = *vf::range(0, 1);
            if (extra) c.S("actor").push_back({2, 0});
            auto& a = c.S("a0");
            long d = *vf::range(2000, 9000);
            a.push_back({OP_SPAWN, VIA_CREATE, 1, 1, 0, 0, 1, d, 0, 0});                      // child#0: yield; sleep(d); yield
            a.push_back({OP_MIGC, 0, 2});
            a.push_back({OP_SLEEP, *vf::range(20, 200)});
            long nmig = *vf::range(1, 2);
            for (long k = 0; k < nmig; k++) { a.push_back({OP_SPAWN, VIA_CREATE, 1, 1, 0, 0, 1, *vf::range(0, 50)}); a.push_back({OP_MIGC, 1 + k, 2}); }
            a.push_back({OP_INTC, 0, *vf::range(0, 2)});
            if (*vf::range(0, 1)) a.push_back({OP_YIELD});
            a.push_back({OP_SLEEP, *vf::range(100, 600)});
            for (long k = 0; k <= nmig; k++) a.push_back({OP_JOIN, k});
            auto& b = c.S("a1");
            long nb = *vf::range(4, 12);
            for (long k = 0; k < nb; k++) b.push_back({OP_SLEEP, *vf::range(5, 80)});
            if (extra) { auto& e = c.S("a2"); long ne = *vf::range(1, 3); for (long k = 0; k < ne; k++) e.push_back({*vf::range(0, 1) ? (long)OP_YIELD : (long)OP_SLEEP, *vf::range(1, 300)}); }
            c.S("sched") = *gen_schedule(80);
            return c;
        }
        for (long i = 0; i < na; i++) {
            long n = *vf::range(1, 6);
            auto& prog = c.S("a" + std::to_string(i));
            for (long k = 0; k < n; k++) {
                long kind = *rc::gen::weightedOneOf<long>({{6, rc::gen::just<long>(OP_SPAWN)}, {2, rc::gen::just<long>(OP_JOIN)}, {2, rc::gen::just<long>(OP_INTC)}, {2, rc::gen::just<long>(OP_MIGC)}, {1, rc::gen::just<long>(OP_YIELDTO)},
                                                           {2, rc::gen::just<long>(OP_MIGSELF)}, {1, rc::gen::just<long>(OP_PAUSEWS)}, {2, rc::gen::just<long>(OP_YIELD)}, {2, rc::gen::just<long>(OP_SLEEP)},
                                                           {na > 1 ? 1 : 0, rc::gen::just<long>(OP_INT)}});      // interrupt another actor (it may be blocked in thread_join)
                if (kind == OP_SPAWN) {
                    long via = *rc::gen::weightedOneOf<long>({{4, rc::gen::just<long>(VIA_CREATE)}, {2, rc::gen::just<long>(VIA_CREATE11)}, {1, rc::gen::just<long>(VIA_GO)}, {2, rc::gen::map(vf::range(0, 3), [](long cap) { return VIA_POOL + (cap << 4); })}});
                    std::vector<long> row = {kind, via & 15, *vf::range(0, 1), *vf::range(0, 1)};
                    row[1] = via;        // pool capacity in the high bits
                    long cn = *vf::range(0, 4);
                    for (long j = 0; j < cn; j++) { long co = *rc::gen::weightedOneOf<long>({{3, rc::gen::just<long>(0)}, {3, rc::gen::just<long>(1)}, {1, rc::gen::just<long>(2)}}); row.push_back(co); row.push_back(co == 1 ? *gen_duration() : *vf::range(0, nv - 1)); }
                    prog.push_back(row);
                } else if (kind == OP_JOIN || kind == OP_YIELDTO) prog.push_back({kind, *vf::range(0, 5)});
                else if (kind == OP_INTC) prog.push_back({kind, *vf::range(0, 5), *vf::range(0, 2)});
                else if (kind == OP_INT) prog.push_back({kind, *vf::range(0, na - 1), *vf::range(0, 2)});
                else if (kind == OP_MIGC) prog.push_back({kind, *vf::range(0, 5), *vf::range(0, nv - 1)});
                else if (kind == OP_MIGSELF) prog.push_back({kind, *vf::range(0, nv - 1)});
                else if (kind == OP_PAUSEWS) prog.push_back({kind, *vf::range(0, 1)});
                else if (kind == OP_SLEEP) prog.push_back({kind, *gen_duration()});
                else prog.push_back({kind});
            }
        }
        c.S("sched") = *gen_schedule(40);
        return c;
    });
}

std::string opname(const std::vector<long>& r) {
    std::ostringstream o;
    switch (r[0]) {
    case OP_SPAWN: {
        static const char* vn[] = {"thread_create", "thread_create11", "go", "pool"};
        o << "spawn(" << vn[r[1] & 3] << ((r[1] & 15) == VIA_POOL ? "[cap " + std::to_string(r[1] >> 4) + "]" : "") << (r[2] ? ",joinable" : ",detached") << (r[3] ? ",stealable" : "") << " {";
        for (size_t i = 4; i + 1 < r.size(); i += 2) o << (r[i] == 0 ? "yield" : r[i] == 1 ? "sleep(" + std::to_string(r[i + 1]) + ")" : "migrate_self(v" + std::to_string(r[i + 1]) + ")") << ";";
        o << "})"; break;
    }
    case OP_JOIN: o << "join(child#" << r[1] << ")"; break;
    case OP_INTC: o << "interrupt(child#" << r[1] << ")"; break;
    case OP_MIGC: o << "migrate(child#" << r[1] << ", v" << r[2] << ")"; break;
    case OP_YIELDTO: o << "yield_to(child#" << r[1] << ")"; break;
    case OP_MIGSELF: o << "migrate_self(v" << r[1] << ")"; break;
    case OP_PAUSEWS: o << "pause_work_stealing(" << r[1] << ")"; break;
    default: o << "op" << r[0];
    }
    return o.str();
}
}  // namespace

int main(int argc, char** argv) {
    vf::Harness h;
    h.prop = "C05";
    h.gen = gen_case;
    h.run = run_case;
    h.desc = [](const Case& c) { return "stack allocator=" + std::string(c.cfg[5] ? "pooled" : "default") + "\n" + describe_common(c, opname); };
    h.fork_per_case = true;
    h.persistent_child = true;     // a child serves cases until one ends abnormally (finish_now), then it is replaced
    return vf::pbt_main(argc, argv, h);
}
