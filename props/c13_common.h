// C13 shared pieces: a mock socket that hands out the input in prescribed fragments, and a function that
// runs the library's HTTP/1.1 receive path over it and returns everything observable as one string.
#pragma once
#include <photon/net/http/message.h>
#include <photon/net/http/headers.h>
#include <photon/net/http/verb.h>
#include <photon/net/socket.h>
#include <photon/common/alog.h>
#include "/repo/net/base_socket.h"
#include <string>
#include <vector>
#include <sstream>
#include <cstring>

namespace c13 {
using namespace photon;
using namespace photon::net;

struct MockSocket : public SocketStreamBase {
    std::string in;                 // bytes the peer sends, then EOF
    std::vector<size_t> frags;      // sizes of successive recv() results (cyclic; empty: everything at once)
    size_t pos = 0, fi = 0, frag_left = 0;
    long calls = 0, step_bound = 0;
    bool bound_hit = false;
    std::string out;                // bytes written by the library
    size_t write_chunk = 0;         // 0: accept everything per send(); else at most this many per send()
    uint64_t tmo = -1;
    size_t next_frag() {
        if (frag_left == 0) { frag_left = frags.empty() ? SIZE_MAX : std::max<size_t>(1, frags[fi++ % frags.size()]); }
        return frag_left;
    }
    ssize_t recv(void* buf, size_t count, int = 0) override {
        if (++calls > step_bound && step_bound) { bound_hit = true; errno = ELOOP; return -1; }
        if (pos >= in.size() || count == 0) return 0;
        size_t n = std::min(std::min(count, in.size() - pos), next_frag());
        memcpy(buf, in.data() + pos, n);
        pos += n; if (frag_left != SIZE_MAX) frag_left -= n;
        return (ssize_t)n;
    }
    ssize_t recv(const struct iovec* iov, int iovcnt, int = 0) override {
        for (int i = 0; i < iovcnt; i++) if (iov[i].iov_len) return recv(iov[i].iov_base, iov[i].iov_len);
        return 0;
    }
    ssize_t read(void* buf, size_t count) override {
        size_t got = 0;
        while (got < count) { ssize_t r = recv((char*)buf + got, count - got); if (r < 0) return r; if (r == 0) break; got += (size_t)r; }
        return (ssize_t)got;
    }
    ssize_t readv(const struct iovec* iov, int iovcnt) override {
        ssize_t total = 0;
        for (int i = 0; i < iovcnt; i++) { ssize_t r = read(iov[i].iov_base, iov[i].iov_len); if (r < 0) return r; total += r; if ((size_t)r < iov[i].iov_len) break; }
        return total;
    }
    ssize_t send(const void* buf, size_t count, int = 0) override {
        size_t n = write_chunk ? std::min(count, write_chunk) : count;
        out.append((const char*)buf, n);
        return (ssize_t)n;
    }
    ssize_t send(const struct iovec* iov, int iovcnt, int = 0) override {
        for (int i = 0; i < iovcnt; i++) if (iov[i].iov_len) return send(iov[i].iov_base, iov[i].iov_len);
        return 0;
    }
    ssize_t write(const void* buf, size_t count) override { size_t d = 0; while (d < count) d += (size_t)send((const char*)buf + d, count - d); return (ssize_t)count; }
    ssize_t writev(const struct iovec* iov, int iovcnt) override { ssize_t t = 0; for (int i = 0; i < iovcnt; i++) t += write(iov[i].iov_base, iov[i].iov_len); return t; }
    int close() override { return 0; }
    uint64_t timeout() const override { return tmo; }
    void timeout(uint64_t t) override { tmo = t; }
};

struct PReq : public http::Request { using http::Request::Request; int recv_header() { return receive_header(); } };
struct PResp : public http::Response { using http::Response::Response; int recv_header() { return receive_header(); } };

struct Parsed {
    int rc = 0;                     // result of receive_header: 0 ok, 1 end of stream, <0 error
    bool enobufs = false, bound_hit = false;
    std::string start;              // verb/target/version or version/status
    std::vector<std::pair<std::string, std::string>> headers;   // in index (sorted) order
    std::string body;
    std::vector<long> read_rcs;     // return codes of the body reads (class only: >0, 0, <0)
    std::string outcome() const {
        std::ostringstream o;
        o << "rc=" << (rc < 0 ? -1 : rc) << "|" << start << "|";
        for (auto& kv : headers) o << kv.first << ":" << kv.second << ";";
        o << "|body[" << body.size() << "]=" << body << "|";
        if (!read_rcs.empty()) o << "last=" << (read_rcs.back() < 0 ? -1 : read_rcs.back() > 0 ? 1 : 0);
        return o.str();
    }
};

// Runs the receive path.  `cap`: message buffer capacity; `fill`: byte the unused buffer is pre-filled with;
// `read_sizes`: sizes of successive body reads (cyclic).
inline Parsed parse_message(bool is_request, const std::string& input, const std::vector<size_t>& frags, uint16_t cap, unsigned char fill,
                            const std::vector<size_t>& read_sizes, bool head_verb = false, const std::string* stale = nullptr) {
    Parsed P;
    MockSocket sock;
    sock.in = input; sock.frags = frags;
    sock.step_bound = 10 * (long)input.size() + 100;
    char* buf = (char*)malloc(cap);          // exact-size heap block: ASan guards the ends
    memset(buf, fill, cap);
    if (stale) memcpy(buf, stale->data(), std::min<size_t>(stale->size(), cap));   // a re-used buffer still holding an earlier message
    auto finish = [&]() { P.bound_hit = sock.bound_hit; free(buf); };
    auto collect = [&](http::Message& m) {
        for (auto it = m.headers.begin(); it != m.headers.end(); ++it) P.headers.push_back({std::string(it.first()), std::string(it.second())});
        // probe the index the way users do
        for (auto& kv : P.headers) { auto v = m.headers[kv.first]; (void)v; }
        size_t total = 0; size_t k = 0;
        std::vector<char> rb;
        for (;;) {
            size_t want = read_sizes.empty() ? 4096 : std::max<size_t>(1, read_sizes[k++ % read_sizes.size()]);
            rb.assign(want, 0);
            errno = 0;
            ssize_t r = m.read(rb.data(), want);
            P.read_rcs.push_back(r);
            if (r <= 0) break;
            if ((size_t)r > want) { P.body += "<<read returned more than requested>>"; break; }
            P.body.append(rb.data(), (size_t)r);
            total += (size_t)r;
            if (total > input.size() + 64 || P.read_rcs.size() > 10 * input.size() + 100) { P.body += "<<body longer than the whole input / endless>>"; break; }
        }
    };
    if (is_request) {
        PReq req(buf, cap);
        req.reset(&sock, false);
        errno = 0;
        P.rc = req.recv_header();
        if (P.rc < 0 && errno == ENOBUFS) P.enobufs = true;
        if (P.rc == 0) {
            P.start = std::string(http::verbstr[req.verb()]) + " " + std::string(req.target()) + " " + std::string(req.version());
            collect(req);
        }
        req.reset((ISocketStream*)nullptr, false);
    } else {
        PResp resp(buf, cap);
        resp.reset(buf, cap, false, &sock, false, head_verb ? http::Verb::HEAD : http::Verb::GET);
        errno = 0;
        P.rc = resp.recv_header();
        if (P.rc < 0 && errno == ENOBUFS) P.enobufs = true;
        if (P.rc == 0) {
            P.start = std::string(resp.version()) + " " + std::to_string(resp.status_code()) + " " + std::string(resp.status_message());
            collect(resp);
        }
        resp.reset((ISocketStream*)nullptr, false);
    }
    finish();
    return P;
}

}  // namespace c13
