// C17 — cache layer: reads through the cached file system return exactly the source's bytes.
//
// One vCPU under the controlled scheduler (virtual clock, so the eviction timer and the store TTL are generated
// too).  Source: a harness file system whose content is a function of (file, offset), with a read log, injected
// failures / short reads and generated yield points.  Media: the real localfs adaptor on a scratch directory
// (ext4 => fiemap hole queries, /dev/shm => in-memory filled-range map), wrapped so that media calls yield at
// generated points (as an asynchronous I/O engine would).  Pool: new_full_file_cached_fs with generated refill unit,
// capacity, eviction period, disk floor, store TTL, async init.
#include "lab_common.h"
#include <photon/fs/localfs.h>
#include <photon/fs/forwardfs.h>
#include <photon/fs/virtual-file.h>
#include <photon/fs/cache/cache.h>
#include <sys/stat.h>
#include <dirent.h>
#include <ftw.h>

using namespace labc;
using namespace photon::fs;

namespace {

enum { OP_READ = 10, OP_PREFETCH = 11, OP_EVICT_FILE = 12, OP_TRIM = 13, OP_REOPEN = 14 };
enum { PL_FAIL = 1, PL_SHORT = 2, PL_YIELD = 3, PL_SLEEP = 4 };
// cfg (after the 5 common entries): [5] media kind (0 ext4 scratch, 1 /dev/shm), [6] log2 refill unit, [7] capacity GB (0/1),
//   [8] eviction period us, [9] disk floor (0 none, 1 larger than the disk => evict everything each period), [10] store TTL us, [11] async init
// file: one row [size] per file;  srcplan / mediaplan: rows [k, kind, arg] for the k-th source read / media call

inline unsigned char content(int fid, uint64_t off) {
    uint64_t x = off * 0x9E3779B97F4A7C15ULL + (uint64_t)(fid + 1) * 0xD1B54A32D192ED03ULL;
    x ^= x >> 29; x *= 0xBF58476D1CE4E5B9ULL; x ^= x >> 32;
    return (unsigned char)(x | 1);          // never 0: a hole read back as zeros is always visible
}

struct H;
H* g_h = nullptr;

int rm_cb(const char* p, const struct stat*, int, struct FTW*) { return remove(p); }
void rm_rf(const std::string& d) { nftw(d.c_str(), rm_cb, 16, FTW_DEPTH | FTW_PHYS); }

struct H {
    Common C;
    std::string media_dir;
    std::vector<long> fsize;
    IFileSystem* srcfs = nullptr;
    ICachedFileSystem* cfs = nullptr;
    long cfgv[16] = {0};
    std::map<long, std::pair<long, long>> srcplan, mediaplan;
    long src_calls = 0, media_calls = 0;
    std::vector<int> inflight;           // per file: cached reads / prefetches in flight
    std::vector<char> trimming;
    std::vector<int> actor_fault;        // per actor: faults injected into its own source reads during the current op
    std::vector<std::vector<std::pair<uint64_t, uint64_t>>> reading;   // per file: [off, end) of cached reads in flight
    int generation = 0, arrived = 0, nactors = 0;
    std::set<std::string> labels;
    bool nt = false;
    long reads_checked = 0;

    std::string fname(int f) const { return "/d" + std::to_string(f) + "/f" + std::to_string(f); }
    int actor_of_current() { for (size_t i = 0; i < C.L.actor_th.size(); i++) if (C.L.actor_th[i] == photon::CURRENT) return (int)i; return -1; }
    void plan_point(std::map<long, std::pair<long, long>>& plan, long k) {
        auto it = plan.find(k);
        if (it == plan.end()) return;
        if (it->second.first == PL_YIELD) photon::thread_yield();
        else if (it->second.first == PL_SLEEP) photon::thread_usleep((uint64_t)it->second.second);
    }
    void media_point() { plan_point(mediaplan, ++media_calls); }
    void evicting(const std::string& path) {
        for (size_t f = 0; f < fsize.size(); f++) if (path == fname((int)f) && inflight[f] > 0) { nt = true; labels.insert("file_evicted_while_read_in_flight"); }
    }
    ssize_t src_read(int fid, const struct iovec* iov, int iovcnt, off_t off);
    void new_pool();
    void run_op(int id, const std::vector<long>& r);
    std::map<std::pair<int, int>, IFile*> handles;     // (actor, file) -> cached file
    IFile* handle(int id, int f) {
        auto& h = handles[{id, f}];
        if (!h) { h = cfs->open(fname(f).c_str(), O_RDONLY, 0644); if (!h) C.L.ctl.violation("open of " + fname(f) + " through the cached fs failed (errno " + std::to_string(errno) + ")"); }
        return h;
    }
    void close_handles(int id) { for (auto& kv : handles) if (kv.first.first == id && kv.second) { delete kv.second; kv.second = nullptr; } }
};

struct SrcFile : public VirtualReadOnlyFile {
    H* h; int fid;
    SrcFile(H* h, int fid) : h(h), fid(fid) {}
    IFileSystem* filesystem() override { return h->srcfs; }
    ssize_t pread(void* buf, size_t count, off_t offset) override { struct iovec v{buf, count}; return h->src_read(fid, &v, 1, offset); }
    ssize_t preadv(const struct iovec* iov, int iovcnt, off_t offset) override { return h->src_read(fid, iov, iovcnt, offset); }
    ssize_t preadv2(const struct iovec* iov, int iovcnt, off_t offset, int) override { return h->src_read(fid, iov, iovcnt, offset); }
    int fstat(struct stat* st) override { memset(st, 0, sizeof *st); st->st_size = h->fsize[fid]; st->st_mode = S_IFREG | 0644; st->st_blksize = 4096; st->st_blocks = (h->fsize[fid] + 511) / 512; return 0; }
    int close() override { return 0; }
};

struct SrcFS : public ForwardFS {
    H* h;
    explicit SrcFS(H* h) : ForwardFS(nullptr), h(h) {}
    int find(const char* p) { for (size_t f = 0; f < h->fsize.size(); f++) if (h->fname((int)f) == p) return (int)f; return -1; }
    IFile* open(const char* pathname, int flags) override { return open(pathname, flags, 0); }
    IFile* open(const char* pathname, int, mode_t) override { int f = find(pathname); if (f < 0) { errno = ENOENT; return nullptr; } return new SrcFile(h, f); }
    int stat(const char* path, struct stat* st) override { int f = find(path); if (f < 0) { errno = ENOENT; return -1; } SrcFile sf(h, f); return sf.fstat(st); }
    int lstat(const char* path, struct stat* st) override { return stat(path, st); }
    int access(const char* path, int) override { return find(path) >= 0 ? 0 : (errno = ENOENT, -1); }
};

struct MediaFile : public ForwardFile_Ownership {
    H* h; std::string path;
    MediaFile(IFile* f, H* h, const char* p) : ForwardFile_Ownership(f, true), h(h), path(p) {}
#define MP(expr) do { h->media_point(); auto r_ = (expr); h->media_point(); return r_; } while (0)
    ssize_t pread(void* b, size_t c, off_t o) override { MP(m_file->pread(b, c, o)); }
    ssize_t preadv(const struct iovec* iov, int n, off_t o) override { MP(m_file->preadv(iov, n, o)); }
    ssize_t pwrite(const void* b, size_t c, off_t o) override { MP(m_file->pwrite(b, c, o)); }
    ssize_t pwritev(const struct iovec* iov, int n, off_t o) override { MP(m_file->pwritev(iov, n, o)); }
    // open / stat / unlink / truncate / fallocate / fiemap / fstat are plain system calls in every in-tree media file system
    // (only reads and writes go through an asynchronous engine), so they are not given yield points: the pool calls some
    // of them with locks held that must not be kept across a yield
    int ftruncate(off_t len) override { if (len == 0) h->evicting(path); return m_file->ftruncate(len); }
};

struct MediaFS : public ForwardFS_Ownership {
    H* h;
    MediaFS(IFileSystem* fs, H* h) : ForwardFS_Ownership(fs, true), h(h) {}
    IFile* open(const char* p, int flags) override { return open(p, flags, 0644); }
    IFile* open(const char* p, int flags, mode_t mode) override { auto f = m_fs->open(p, flags, mode); return f ? new MediaFile(f, h, p) : nullptr; }
    int unlink(const char* p) override { h->evicting(p); return m_fs->unlink(p); }
    int truncate(const char* p, off_t len) override { if (len == 0) h->evicting(p); return m_fs->truncate(p, len); }
};

ssize_t H::src_read(int fid, const struct iovec* iov, int iovcnt, off_t off) {
    auto& ctl = C.L.ctl;
    size_t total = 0; for (int i = 0; i < iovcnt; i++) total += iov[i].iov_len;
    long k = ++src_calls;
    if (off < 0 || (uint64_t)off + total > (uint64_t)fsize[fid])
        ctl.violation("source read [" + std::to_string(off) + ", +" + std::to_string(total) + ") of file " + std::to_string(fid) + " reaches beyond the file's size " + std::to_string(fsize[fid]));
    int actor = actor_of_current();
    auto it = srcplan.find(k);
    long kind = it == srcplan.end() ? 0 : it->second.first;
    if (kind == PL_YIELD) { photon::thread_yield(); labels.insert("source_read_yielded"); }
    else if (kind == PL_SLEEP) { photon::thread_usleep((uint64_t)it->second.second); labels.insert("source_read_slept"); }
    if (kind == PL_FAIL) { if (actor >= 0) actor_fault[actor]++; labels.insert("source_read_failed"); errno = EIO; return -1; }
    size_t n = total;
    if (kind == PL_SHORT && total >= 2) { n = total / 2; if (actor >= 0) actor_fault[actor]++; labels.insert("source_read_short"); }
    size_t done = 0;
    for (int i = 0; i < iovcnt && done < n; i++) {
        size_t m = std::min(iov[i].iov_len, n - done);
        auto p = (unsigned char*)iov[i].iov_base;
        for (size_t j = 0; j < m; j++) p[j] = content(fid, (uint64_t)off + done + j);
        done += m;
    }
    return (ssize_t)n;
}

void H::new_pool() {
    auto local = new_localfs_adaptor(media_dir.c_str(), ioengine_psync);
    if (!local) C.L.ctl.inconclusive("cannot open the media directory " + media_dir);
    auto media = new MediaFS(local, this);
    uint64_t refill = 1ULL << cfgv[6];
    cfs = new_full_file_cached_fs(srcfs, media, refill, (uint64_t)cfgv[7], (uint64_t)cfgv[8], cfgv[9] ? (1ULL << 60) : 0, nullptr, 0, nullptr, (uint64_t)cfgv[10], cfgv[11] != 0);
    if (!cfs) C.L.ctl.violation("new_full_file_cached_fs returned null");
}

void H::run_op(int id, const std::vector<long>& r) {
    auto& ctl = C.L.ctl;
    if (r[0] == OP_REOPEN) {
        C.st[id].phase = "reopen barrier";
        close_handles(id);
        int mygen = generation;
        if (++arrived == nactors) {
            delete cfs; cfs = nullptr;
            // what does the new pool find?
            for (size_t f = 0; f < fsize.size(); f++) { struct stat st; if (::stat((media_dir + fname((int)f)).c_str(), &st) == 0 && st.st_blocks > 0) { nt = true; labels.insert("reopen_found_cached_data"); } }
            new_pool();
            arrived = 0; generation++;
        } else while (generation == mygen) photon::thread_usleep(53);
        return;
    }
    int f = (int)(r.at(1) % (long)fsize.size());
    if (r[0] == OP_EVICT_FILE) {
        C.st[id].phase = "pool->evict(file)"; C.st[id].phase_arg = f;
        if (inflight[f] > 0) { nt = true; labels.insert("evict_requested_while_read_in_flight"); }
        cfs->get_pool()->evict(fname(f));
        return;
    }
    uint64_t off = (uint64_t)r.at(2), len = (uint64_t)r.at(3);
    if (r[0] == OP_TRIM) {
        // only defined while no read of that file is in flight: the harness makes it so
        C.st[id].phase = "trim (waiting for readers to drain)"; C.st[id].phase_arg = f;
        while (trimming[f]) photon::thread_usleep(47);
        trimming[f] = 1;
        while (inflight[f] > 0) photon::thread_usleep(47);
        C.st[id].phase = "trim";
        handle(id, f)->fallocate(0, (off_t)off, (off_t)len);
        trimming[f] = 0;
        labels.insert("range_punched");
        return;
    }
    while (trimming[f]) { C.st[id].phase = "waiting for a trim to finish"; photon::thread_usleep(47); }
    IFile* file = handle(id, f);
    inflight[f]++;
    actor_fault[id] = 0;
    if (r[0] == OP_PREFETCH) {
        C.st[id].phase = "prefetch"; C.st[id].phase_arg = f;
        int rc = file->fadvise((off_t)off, (off_t)len, POSIX_FADV_WILLNEED);
        // a prefetch may fail for reasons that do not concern readers (e.g. the pool is full and refuses the write); it only changes what is cached
        if (rc != 0) labels.insert("prefetch_failed");
        inflight[f]--;
        labels.insert("prefetch");
        return;
    }
    // ---- OP_READ
    C.st[id].phase = "pread"; C.st[id].phase_arg = (long)off;
    long nseg = std::max<long>(1, r.at(4)); uint64_t segseed = (uint64_t)r.at(5);
    // exact-size heap blocks (ASan guards the ends), pre-filled with 0 (content is never 0)
    std::vector<std::vector<unsigned char>> bufs; std::vector<struct iovec> iov;
    { uint64_t left = len; for (long s = 0; s < nseg; s++) { uint64_t m = s == nseg - 1 ? left : std::min<uint64_t>(left, (segseed = segseed * 6364136223846793005ULL + 1442695040888963407ULL, (segseed >> 33) % (len / nseg + 2))); bufs.emplace_back((size_t)m, 0); left -= m; }
      static unsigned char dummy;   // zero-length segments carry a valid address (a null base in a later segment trips an assert in iovector, which callers never feed)
      for (auto& b : bufs) iov.push_back({b.empty() ? (void*)&dummy : (void*)b.data(), b.size()}); }
    uint64_t end = off + len;
    for (auto& iv : reading[f]) if (iv.first < end && off < iv.second) { nt = true; labels.insert("readers_overlapped_on_a_range"); }
    reading[f].push_back({off, end});
    ssize_t ret = len == 0 ? file->pread(nullptr, 0, (off_t)off) : file->preadv(iov.data(), (int)iov.size(), (off_t)off);
    for (size_t i = 0; i < reading[f].size(); i++) if (reading[f][i] == std::make_pair(off, end)) { reading[f].erase(reading[f].begin() + i); break; }
    inflight[f]--;
    uint64_t size = (uint64_t)fsize[f];
    uint64_t expect = off >= size ? 0 : std::min(len, size - off);
    std::ostringstream what; what << "pread(file " << f << " size " << size << ", off " << off << ", len " << len << ", " << nseg << " segment(s))";
    if (ret < 0) {
        if (actor_fault[id] == 0) ctl.violation(what.str() + " failed (errno " + std::to_string(errno) + ") although none of its own source reads failed or was short");
        labels.insert("read_failed_after_source_fault");
        return;
    }
    if ((uint64_t)ret > expect) ctl.violation(what.str() + " returned " + std::to_string(ret) + " bytes, the source has only " + std::to_string(expect) + " there");
    if ((uint64_t)ret < expect && actor_fault[id] == 0) ctl.violation(what.str() + " returned " + std::to_string(ret) + " bytes, the source returns " + std::to_string(expect));
    uint64_t pos = 0;
    for (auto& b : bufs) for (size_t j = 0; j < b.size() && pos < (uint64_t)ret; j++, pos++)
        if (b[j] != content(f, off + pos)) {
            std::ostringstream o; o << what.str() << " returned a wrong byte at offset " << off + pos << " (byte " << pos << " of " << ret << "): got 0x" << std::hex << (int)b[j] << ", source has 0x" << (int)content(f, off + pos);
            ctl.violation(o.str());
        }
    reads_checked++;
    if (expect > 0 && (uint64_t)ret == expect) labels.insert(off + len > size ? "read_clipped_at_eof" : "read_ok");
    if (size % 4096 && off + len > size / 4096 * 4096 && expect) labels.insert("read_touched_unaligned_tail");
}

Outcome run_case(const Case& c) {
    auto T0w = std::chrono::steady_clock::now();
    auto tick = [&](const char* w) { if (getenv("C17_TIME")) fprintf(stderr, "[t] %s %ld us\n", w, (long)std::chrono::duration_cast<std::chrono::microseconds>(std::chrono::steady_clock::now() - T0w).count()); };
    H h; g_h = &h;
    for (size_t i = 0; i < c.cfg.size() && i < 16; i++) h.cfgv[i] = c.cfg[i];
    for (auto& r : c.S("file")) h.fsize.push_back(std::max<long>(0, r.at(0)));
    if (h.fsize.empty()) h.fsize.push_back(5000);
    for (auto& r : c.S("srcplan")) if (r.size() >= 3) h.srcplan[r[0]] = {r[1], r[2]};
    for (auto& r : c.S("mediaplan")) if (r.size() >= 3) h.mediaplan[r[0]] = {r[1], r[2]};
    size_t nf = h.fsize.size();
    h.inflight.assign(nf, 0); h.trimming.assign(nf, 0); h.reading.resize(nf);
    std::string tag = vf::worker_index() >= 0 ? "w" + std::to_string(vf::worker_index()) + (getenv("VERIF_TIER") ? getenv("VERIF_TIER") : "") : "p" + std::to_string(getpid());
    h.media_dir = h.cfgv[5] ? "/dev/shm/verif-c17-" + tag : "/verif/build/scratch/c17-media/" + tag;
    rm_rf(h.media_dir);
    if (!h.cfgv[5]) ::mkdir("/verif/build/scratch/c17-media", 0755);
    if (::mkdir(h.media_dir.c_str(), 0755) != 0) { Outcome o; o.status = Outcome::INCONCLUSIVE; o.msg = "cannot create " + h.media_dir; return o; }
    h.C.horizon_extra = (uint64_t)h.cfgv[8] * 4 + (uint64_t)h.cfgv[10] * 2 + 200000;
    h.C.setup(c, [&](int id, const std::vector<long>& r) { h.run_op(id, r); });
    auto& L = h.C.L;
    L.nvcpu = 1;
    for (auto& a : L.actors) { a.vcpu = 0; a.stack = 512 * 1024; }
    h.nactors = (int)L.actors.size();
    h.actor_fault.assign(h.nactors, 0);
    for (size_t i = 0; i < L.actors.size(); i++) {
        auto inner = L.actors[i].body; int id = (int)i;
        L.actors[i].body = [&h, inner, id]() { inner(); h.close_handles(id); };
    }
    SrcFS src(&h); h.srcfs = &src;
    auto& ctl = L.ctl;
    ctl.max_steps = 2000000;
    L.vcpu_setup = [&](int) { tick("vcpu up"); h.new_pool(); tick("pool built"); };
    L.vcpu_teardown = [&](int) { tick("actors done"); delete h.cfs; h.cfs = nullptr; tick("pool deleted"); };
    ctl.on_quiescence = [&]() { ctl.violation("quiescence with actors still blocked:" + h.C.blocked_report()); };
    std::string md = h.media_dir;
    vf::at_finish() = [md]() { rm_rf(md); };
    L.run();
    vf::at_finish() = nullptr;
    tick("lab done");
    rm_rf(h.media_dir);
    tick("cleaned");
    Outcome& out = ctl.out;
    out.nontrivial = h.nt;
    for (auto& l : h.labels) out.label(l);
    out.label(h.cfgv[5] ? "media:tmpfs(range map)" : "media:ext4(fiemap)");
    out.label("refill_unit:" + std::to_string(1L << h.cfgv[6]));
    if (h.cfgv[7] == 0) out.label("capacity:0(always full)");
    if (h.cfgv[9]) out.label("disk_floor:evict_everything_each_period");
    if (ctl.clock_jumps) out.label("sched:clock_jumps");
    return out;
}

rc::Gen<Case> gen_case(const vf::Options&) {
    return rc::gen::exec([]() {
        Case c;
        long na = *vf::range(1, 4);
        long media = *rc::gen::weightedOneOf<long>({{3, rc::gen::just<long>(0)}, {2, rc::gen::just<long>(1)}});
        long rlog = *rc::gen::weightedOneOf<long>({{4, rc::gen::just<long>(12)}, {3, rc::gen::just<long>(13)}, {2, rc::gen::just<long>(16)}, {1, rc::gen::just<long>(20)}});
        long cap = *rc::gen::weightedOneOf<long>({{3, rc::gen::just<long>(1)}, {1, rc::gen::just<long>(0)}});
        long period = *vf::oneof<long>({300, 2000, 20000, 1000000});
        long floor = *rc::gen::weightedOneOf<long>({{2, rc::gen::just<long>(0)}, {1, rc::gen::just<long>(1)}});
        long ttl = *vf::oneof<long>({0, 1500, 10000000});
        c.cfg = {1, 0, 0, 0, 0, media, rlog, cap, period, floor, ttl, *vf::range(0, 1)};
        for (long i = 0; i < na; i++) c.S("actor").push_back({0, 0});
        long nf = *vf::range(1, 3);
        long unit = 1L << rlog;
        std::vector<long> sizes;
        for (long f = 0; f < nf; f++) {
            long sz = *rc::gen::weightedOneOf<long>({{1, vf::range(0, 1)}, {2, vf::range(2, 4095)}, {2, rc::gen::map(vf::range(1, 40), [](long k) { return k * 4096; })},
                                                      {4, rc::gen::map(rc::gen::pair(vf::range(0, 40), vf::range(1, 4095)), [](std::pair<long, long> p) { return p.first * 4096 + p.second; })},
                                                      {1, vf::range(160000, 400000)}});
            sizes.push_back(sz); c.S("file").push_back({sz});
        }
        bool reopen = *vf::range(0, 3) == 0;
        auto gen_io = [&](std::vector<std::vector<long>>& prog, long n) {
            for (long k = 0; k < n; k++) {
                long kind = *rc::gen::weightedOneOf<long>({{10, rc::gen::just<long>(OP_READ)}, {2, rc::gen::just<long>(OP_PREFETCH)}, {2, rc::gen::just<long>(OP_EVICT_FILE)}, {1, rc::gen::just<long>(OP_TRIM)},
                                                            {1, rc::gen::just<long>(OP_YIELD)}, {1, rc::gen::just<long>(OP_SLEEP)}});
                long f = *vf::range(0, nf - 1), sz = sizes[f];
                if (kind == OP_READ || kind == OP_PREFETCH || kind == OP_TRIM) {
                    // offsets: anywhere, block edges, around EOF
                    long off = *rc::gen::weightedOneOf<long>({{3, vf::range(0, std::max<long>(sz, 1))}, {2, rc::gen::map(vf::range(0, sz / 4096 + 1), [](long k) { return k * 4096; })},
                                                               {2, rc::gen::map(vf::range(0, sz / unit + 1), [unit](long k) { return k * unit; })},
                                                               {2, rc::gen::map(vf::range(-5000, 5000), [sz](long d) { return std::max<long>(0, sz + d); })}});
                    long len = *rc::gen::weightedOneOf<long>({{1, rc::gen::just<long>(0)}, {3, vf::range(1, 300)}, {3, vf::range(301, 9000)}, {2, vf::range(9001, 70000)}, {1, rc::gen::map(vf::range(1, 3), [unit](long k) { return k * unit; })}});
                    if (kind == OP_READ) prog.push_back({kind, f, off, len, *vf::range(1, 4), *vf::range(0, 100000)});
                    else prog.push_back({kind, f, off, len});
                } else if (kind == OP_EVICT_FILE) prog.push_back({kind, f});
                else if (kind == OP_SLEEP) prog.push_back({kind, *rc::gen::weightedOneOf<long>({{3, gen_duration()}, {1, vf::range(1000, 30000)}})});
                else prog.push_back({kind});
            }
        };
        for (long i = 0; i < na; i++) {
            auto& prog = c.S("a" + std::to_string(i));
            gen_io(prog, *vf::range(1, 5));
            if (reopen) { prog.push_back({OP_REOPEN}); gen_io(prog, *vf::range(1, 4)); }
        }
        long nsp = *vf::range(0, 6);
        for (long i = 0; i < nsp; i++) {
            long kind = *rc::gen::weightedOneOf<long>({{1, rc::gen::just<long>(PL_FAIL)}, {1, rc::gen::just<long>(PL_SHORT)}, {4, rc::gen::just<long>(PL_YIELD)}, {3, rc::gen::just<long>(PL_SLEEP)}});
            c.S("srcplan").push_back({*vf::range(1, 14), kind, kind == PL_SLEEP ? *vf::range(1, 3000) : 0});
        }
        long nmp = *vf::range(0, 12);
        for (long i = 0; i < nmp; i++) {
            long kind = *rc::gen::weightedOneOf<long>({{3, rc::gen::just<long>(PL_YIELD)}, {2, rc::gen::just<long>(PL_SLEEP)}});
            c.S("mediaplan").push_back({*vf::range(1, 120), kind, kind == PL_SLEEP ? *vf::range(1, 3000) : 0});
        }
        c.S("sched") = *gen_schedule(10);
        return c;
    });
}

std::string opname(const std::vector<long>& r) {
    std::ostringstream o;
    switch (r[0]) {
    case OP_READ: o << "pread(f" << r[1] << ", off " << r[2] << ", len " << r[3] << ", " << r[4] << " seg)"; break;
    case OP_PREFETCH: o << "prefetch(f" << r[1] << ", off " << r[2] << ", len " << r[3] << ")"; break;
    case OP_EVICT_FILE: o << "pool.evict(f" << r[1] << ")"; break;
    case OP_TRIM: o << "trim(f" << r[1] << ", off " << r[2] << ", len " << r[3] << ")"; break;
    case OP_REOPEN: o << "REOPEN-BARRIER(new pool on the same directory)"; break;
    default: o << "op" << r[0];
    }
    return o.str();
}
}  // namespace

int main(int argc, char** argv) {
    vf::Harness h;
    h.prop = "C17";
    h.gen = gen_case;
    h.run = run_case;
    h.desc = [](const Case& c) {
        std::ostringstream o;
        o << "media=" << (c.cfg[5] ? "/dev/shm (range map)" : "ext4 scratch (fiemap)") << " refill_unit=" << (1L << c.cfg[6]) << " capacityGB=" << c.cfg[7] << " evict_period_us=" << c.cfg[8]
          << " disk_floor=" << (c.cfg[9] ? "above disk size" : "none") << " store_ttl_us=" << c.cfg[10] << " async_init=" << c.cfg[11] << "\n files:";
        for (auto& r : c.S("file")) o << " " << r[0];
        o << "\n source plan (k-th source read: 1 fail, 2 short, 3 yield, 4 sleep):";
        for (auto& r : c.S("srcplan")) o << " #" << r[0] << ":" << r[1] << (r[1] == PL_SLEEP ? "(" + std::to_string(r[2]) + ")" : "");
        o << "\n media plan (k-th media call boundary: 3 yield, 4 sleep):";
        for (auto& r : c.S("mediaplan")) o << " #" << r[0] << ":" << r[1] << (r[1] == PL_SLEEP ? "(" + std::to_string(r[2]) + ")" : "");
        o << "\n" << describe_common(c, opname);
        return o.str();
    };
    h.fork_per_case = true;
    h.persistent_child = true;
    return vf::pbt_main(argc, argv, h);
}
