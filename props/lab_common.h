// Shared pieces of the schedlab harnesses: case layout, actor bookkeeping, common ops.
//
// Case layout (all schedlab properties):
//   cfg   : [nvcpu, wsflags(v0), wsflags(v1), wsflags(v2), n_os_threads, <property specific...>]
//   actor : one row per actor: [vcpu, stealable]
//   a<i>  : program of actor i, one op per row: [op, args...]
//   o<k>  : program of plain OS-thread participant k
//   sched : rows [gap, type, arg]  (type 0: switch to the arg-th enabled participant, 1: advance clock by arg us)
#pragma once
#include "schedlab.h"

namespace labc {
using namespace lab;
using vf::Case;
using vf::Outcome;

enum { OP_YIELD = 0, OP_SLEEP = 1, OP_INT = 2, OP_BURN = 3, OP_FIRST_CUSTOM = 10 };   // OP_BURN t: compute for t us of virtual time without yielding
static const int ERRNOS[] = {EINTR, ECANCELED, EAGAIN};

struct ActorState {
    int id = -1;
    bool started = false, finished = false;
    const char* phase = "not started";   // what the actor is doing right now (for the quiescence report)
    long phase_arg = 0;
    int ints_received = 0;               // interrupts issued to this actor so far
};

struct Common {
    Lab L;
    std::vector<ActorState> st;
    const Case* c = nullptr;
    uint64_t horizon_extra = 0;

    int nactors() const { return (int)st.size(); }
    std::string prog_name(int i) const { return "a" + std::to_string(i); }

    // Sets up vCPUs / actors / OS threads / schedule from the common part of the case.
    // `run_op(actor, row)` executes one property-specific op of a photon actor; `run_os_op(k,row)` one of an OS thread.
    void setup(const Case& cs, std::function<void(int, const std::vector<long>&)> run_op,
               std::function<void(int, const std::vector<long>&)> run_os_op = nullptr) {
        c = &cs;
        L.nvcpu = (int)std::max<long>(1, std::min<long>(3, cs.cfg.at(0)));
        L.vcpu_flags = {(int)cs.cfg.at(1) & 3, (int)cs.cfg.at(2) & 3, (int)cs.cfg.at(3) & 3};
        int n_os = (int)std::max<long>(0, std::min<long>(4, cs.cfg.at(4)));
        auto& arows = cs.S("actor");
        st.resize(arows.size());
        for (size_t i = 0; i < arows.size(); i++) {
            st[i].id = (int)i;
            Lab::Actor a;
            a.vcpu = (int)(arows[i].at(0) % L.nvcpu);
            a.stealable = arows[i].size() > 1 && arows[i][1] != 0;
            int id = (int)i;
            a.body = [this, id, run_op]() {
                st[id].started = true;
                for (auto& r : c->S(prog_name(id))) {
                    if (r.empty()) continue;
                    common_or_custom(id, r, run_op);
                }
                st[id].phase = "finished";
                st[id].finished = true;
            };
            L.actors.push_back(a);
        }
        for (int k = 0; k < n_os; k++) {
            L.os_threads.push_back([this, k, run_os_op]() {
                for (auto& r : c->S("o" + std::to_string(k))) if (!r.empty() && run_os_op) run_os_op(k, r);
            });
        }
        L.set_schedule(cs.S("sched"));
        // time horizon: every generated duration + margin; the idlers' 10 s wake-ups lie beyond it
        uint64_t sum = 0;
        for (auto& s : cs.sec) if (s.first != "sched" && s.first != "actor") for (auto& r : s.second) for (size_t i = 1; i < r.size(); i++) if (r[i] > 0 && r[i] < 100000000) sum += (uint64_t)r[i];
        for (auto& r : cs.S("sched")) if (r.size() >= 3 && r[1] == 1) sum += (uint64_t)r[2];
        L.ctl.horizon = T0 + sum + 300000 + horizon_extra;
    }
    void common_or_custom(int id, const std::vector<long>& r, const std::function<void(int, const std::vector<long>&)>& run_op) {
        switch (r[0]) {
        case OP_YIELD: st[id].phase = "yield"; photon::thread_yield(); break;
        case OP_SLEEP: st[id].phase = "sleep"; st[id].phase_arg = r.at(1); photon::thread_usleep((uint64_t)r.at(1)); break;
        case OP_BURN: st[id].phase = "burn"; L.ctl.vnow += (uint64_t)std::max<long>(0, r.at(1)); L.ctl.clock_jumps++; break;
        case OP_INT: {
            int j = (int)(r.at(1) % nactors());
            if (j == id || !L.actor_th[j]) break;
            st[id].phase = "interrupt";
            st[j].ints_received++;
            photon::thread_interrupt(L.actor_th[j], ERRNOS[r.at(2) % 3]);
            break;
        }
        default: run_op(id, r); break;
        }
        st[id].phase = "between ops";
    }
    std::string blocked_report() const {
        std::ostringstream o;
        for (auto& a : st) if (a.started && !a.finished) o << " actor" << a.id << "{" << a.phase << " " << a.phase_arg << "}";
        for (auto& a : st) if (!a.started) o << " actor" << a.id << "{never started}";
        return o.str();
    }
    bool any_blocked() const { for (auto& a : st) if (!a.finished) return true; return false; }
};

// generator helpers -------------------------------------------------------------------------
// common prefix of cfg + actor map; returns number of actors
inline long gen_common(Case& c, int min_actors, int max_actors, int max_os, bool allow_ws = false) {
    long nv = *rc::gen::weightedOneOf<long>({{3, rc::gen::just<long>(1)}, {5, rc::gen::just<long>(2)}, {2, rc::gen::just<long>(3)}});
    long nos = max_os ? *vf::range(0, max_os) : 0;
    long f0 = allow_ws ? *vf::range(0, 3) : 0, f1 = allow_ws ? *vf::range(0, 3) : 0, f2 = allow_ws ? *vf::range(0, 3) : 0;
    c.cfg = {nv, f0, f1, f2, nos};
    long na = *vf::range(min_actors, max_actors);
    for (long i = 0; i < na; i++) c.S("actor").push_back({*vf::range(0, nv - 1), allow_ws ? *vf::range(0, 1) : 0});
    return na;
}
inline rc::Gen<long> gen_duration() {
    return rc::gen::weightedOneOf<long>({{2, rc::gen::just<long>(0)}, {3, vf::range(1, 20)}, {3, vf::range(21, 500)}, {2, vf::range(501, 5000)}});
}
inline std::string describe_common(const Case& c, const std::function<std::string(const std::vector<long>&)>& opname) {
    std::ostringstream o;
    o << "vcpus=" << c.cfg[0] << " ws_flags=" << c.cfg[1] << "," << c.cfg[2] << "," << c.cfg[3] << " os_threads=" << c.cfg[4];
    for (size_t i = 5; i < c.cfg.size(); i++) o << (i == 5 ? " cfg:" : ",") << c.cfg[i];
    o << "\n";
    auto& arows = c.S("actor");
    for (size_t i = 0; i < arows.size(); i++) {
        o << " actor" << i << "@vcpu" << arows[i][0] % std::max<long>(1, c.cfg[0]) << ":";
        for (auto& r : c.S("a" + std::to_string(i))) {
            if (r.empty()) continue;
            if (r[0] == OP_YIELD) o << " yield;";
            else if (r[0] == OP_SLEEP) o << " sleep(" << r[1] << ");";
            else if (r[0] == OP_BURN) o << " burn(" << r[1] << ");";
            else if (r[0] == OP_INT) o << " interrupt(actor" << r[1] % (long)arows.size() << ",e" << r[2] % 3 << ");";
            else o << " " << opname(r) << ";";
        }
        o << "\n";
    }
    for (long k = 0; k < c.cfg[4]; k++) {
        o << " osthread" << k << ":";
        for (auto& r : c.S("o" + std::to_string(k))) if (!r.empty()) o << " " << opname(r) << ";";
        o << "\n";
    }
    o << " sched:";
    for (auto& r : c.S("sched")) o << " +" << r[0] << (r[1] == 0 ? ":sw" : ":adv") << r[2];
    return o.str();
}

}  // namespace labc
