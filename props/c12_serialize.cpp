// C12 — RPC serialization: lossless round trip under any fragmentation; checked messages reject
// altered bytes; structured hostile mutations of valid messages never read outside the bytes.
#include "pbt.h"
#include "c12_common.h"

using namespace vf;
using namespace c12;

namespace {

std::string bytes_of(long len, long seed) {
    std::string s((size_t)len, 0);
    for (long i = 0; i < len; i++) s[i] = (char)(1 + ((seed * 31 + i * 7 + (i >> 6)) % 250));   // never NUL
    return s;
}

struct Built {
    // owned storage for the original message's fields
    std::vector<std::string> store;
    std::vector<std::vector<iovec>> iovs;
    std::unique_ptr<rpc::sorted_map_factory<rpc::string, Inner>> fac;
    std::vector<Inner> inners;
    std::vector<std::string> keys;
    uint64_t fbval = 0;
    std::vector<uint32_t> arr;
};

template <typename M>
void build(const Case& c, M& m, Built& bt) {
    bt.store.reserve(64); bt.iovs.reserve(4); bt.inners.reserve(16); bt.keys.reserve(16);
    m.x = (uint32_t)c.cfg.at(2); m.tail = (uint64_t)c.cfg.at(3);
    m.inner.a = (uint32_t)c.cfg.at(4); m.inner.b = (uint16_t)c.cfg.at(5);
    for (auto& r : c.S("f")) {
        long id = r.at(0), len = r.at(1), seed = r.at(2);
        switch (id) {
        case 0: bt.store.push_back(bytes_of(len, seed)); m.b.assign(bt.store.back().data(), len); break;
        case 1: bt.store.push_back(bytes_of(len, seed)); ((rpc::buffer&)m.ab).assign(bt.store.back().data(), len); break;
        case 2: if (len) { bt.fbval = 0x0102030405060708ULL * (seed + 1); m.fb.assign(&bt.fbval); } break;
        case 3: bt.arr.clear(); for (long i = 0; i < len; i++) bt.arr.push_back((uint32_t)(seed * 1000 + i)); if (len) m.arr.assign(bt.arr); break;
        case 4: if (len > 0) { bt.store.push_back(bytes_of(len - 1, seed)); m.str.assign(std::string_view(bt.store.back())); } break;   // len counts the NUL
        case 5: if (len > 0) { bt.store.push_back(bytes_of(len - 1, seed)); m.inner.s.assign(std::string_view(bt.store.back())); } break;
        }
    }
    int which = 0;
    for (const char* sec : {"iva", "aiva"}) {
        if (!c.S(sec).empty()) {
            bt.iovs.emplace_back();
            long k = 0;
            for (long len : c.S(sec)[0]) { bt.store.push_back(bytes_of(len, 77 + which * 10 + k++)); bt.iovs.back().push_back({(void*)bt.store.back().data(), (size_t)len}); }
            auto& ia = which == 0 ? (rpc::iovec_array&)m.iva : (rpc::iovec_array&)m.aiva;
            ia.assign(bt.iovs.back().data(), (int)bt.iovs.back().size());
        }
        which++;
    }
    if (!c.S("map").empty()) {
        bt.fac.reset(new rpc::sorted_map_factory<rpc::string, Inner>());
        std::set<std::string> seen;
        for (auto& r : c.S("map")) {
            std::string key = bytes_of(r.at(0), r.at(1));
            if (!seen.insert(key).second) continue;           // keys are unique in a map
            bt.keys.push_back(key);
            bt.inners.emplace_back();
            Inner& in = bt.inners.back();
            in.a = (uint32_t)r.at(2); in.b = (uint16_t)r.at(3);
            if (r.at(4) > 0) { bt.store.push_back(bytes_of(r.at(4) - 1, r.at(1) + 5)); in.s.assign(std::string_view(bt.store.back())); }
            rpc::string k{std::string_view(bt.keys.back())};
            bt.fac->append(k, in);
        }
        bt.fac->assign_to(&m.map);
    }
}

std::string flat_of(const iovector& iov) {
    std::string s;
    for (auto& v : iov) s.append((const char*)v.iov_base, v.iov_len);
    return s;
}

struct Frag {
    std::vector<char*> blocks;
    Blocks B;
    std::unique_ptr<IOVector> iov;
    ~Frag() { for (char* p : blocks) free(p); for (auto& a : B.allocated) free((void*)a.p); }
};

// split `flat` at the given cut points (per-mille of the length), each piece its own exact heap block
void fragment(const std::string& flat, const std::vector<long>& cuts, Frag& fr) {
    std::set<size_t> pts;
    for (long c : cuts) { size_t p = (size_t)((double)c / 1000.0 * flat.size()); if (p > 0 && p < flat.size()) pts.insert(p); }
    while (pts.size() > 23) pts.erase(std::prev(pts.end()));
    pts.insert(flat.size());
    fr.iov.reset(new IOVector(recording_alloc()));
    cur_blocks() = &fr.B;
    size_t prev = 0;
    for (size_t p : pts) {
        size_t n = p - prev;
        char* blk = (char*)malloc(n);
        memcpy(blk, flat.data() + prev, n);
        fr.blocks.push_back(blk);
        fr.B.supplied.push_back({blk, n});
        if (n) fr.iov->push_back(blk, n);
        prev = p;
    }
}

std::string sv_of(const rpc::buffer& b) { return b.size() ? std::string((const char*)b.addr(), b.size()) : std::string(); }
std::string flat_iva(const rpc::iovec_array& a) { std::string s; for (auto& v : a) s.append((const char*)v.iov_base, v.iov_len); return s; }

template <typename M>
std::string compare(M& orig, M* got, Built& bt) {
    std::ostringstream e;
#define CMPF(f) if (sv_of(orig.f) != sv_of(got->f)) { e << #f << " differs (" << got->f.size() << " vs " << orig.f.size() << " bytes)"; return e.str(); }
    if (orig.x != got->x || orig.tail != got->tail || orig.inner.a != got->inner.a || orig.inner.b != got->inner.b) return "fixed fields differ";
    CMPF(b) CMPF(ab) CMPF(fb) CMPF(arr) CMPF(str) CMPF(inner.s)
    if (orig.arr.size() != got->arr.size()) return "arr element count differs";
    for (size_t i = 0; i < orig.arr.size(); i++) if (orig.arr[i] != got->arr[i]) return "arr element differs";
    if (orig.str.size() && orig.str.sv() != got->str.sv()) return "str.sv() differs";
    if (flat_iva(orig.iva) != flat_iva(got->iva)) return "iva content differs";
    if (flat_iva(orig.aiva) != flat_iva(got->aiva)) return "aiva content differs";
    if (got->iva.summed_size != flat_iva(orig.iva).size()) return "iva.summed_size differs";
    // map: same order, same entries, every key found
    auto a = orig.map.begin(); auto b = got->map.begin();
    size_t n = 0;
    for (; a != orig.map.end() && b != got->map.end(); ++a, ++b, ++n) {
        if (sv_of(a->first) != sv_of(b->first)) return "map key " + std::to_string(n) + " differs";
        if (a->second.a != b->second.a || a->second.b != b->second.b || sv_of(a->second.s) != sv_of(b->second.s)) return "map value " + std::to_string(n) + " differs";
    }
    if ((a != orig.map.end()) != (b != got->map.end())) return "map entry count differs";
    std::string prev;
    n = 0;
    for (auto it = got->map.begin(); it != got->map.end(); ++it, ++n) {
        std::string k(it->first.sv());
        if (n && !(prev < k)) return "map order not ascending after deserialization";
        prev = k;
    }
    for (auto& k : bt.keys) {
        rpc::string key{std::string_view(k)};
        auto it = got->map.find(key);
        if (it == got->map.end() || it->first.sv() != std::string_view(k)) return "map.find() misses key of length " + std::to_string(k.size());
    }
    {
        std::string absent = "\xfe\xfe absent";
        rpc::string key{std::string_view(absent)};
        auto it = got->map.find(key);
        if (it != got->map.end() && it->first.sv() == std::string_view(absent)) return "map.find() invents a key";
    }
    return "";
#undef CMPF
}

template <typename M>
Outcome run_typed(const Case& c) {
    Outcome out;
    long mode = c.cfg.at(0);
    M orig;
    Built bt;
    build(c, orig, bt);
    rpc::SerializerIOV ser;
    ser.serialize(orig);
    if (ser.iovfull) { out.status = Outcome::INCONCLUSIVE; out.msg = "serializer iov full"; return out; }
    std::string flat = flat_of(ser.iov);
    std::vector<long> cuts = c.S("cut").empty() ? std::vector<long>() : c.S("cut")[0];
    // ---------------- round trip
    {
        Frag fr;
        fragment(flat, cuts, fr);
        rpc::DeserializerIOV des;
        M* got = des.template deserialize<M>(fr.iov.get());
        if (!got) return Outcome::violation("deserialize() of a freshly serialized message failed (" + std::to_string(flat.size()) + " bytes in " + std::to_string(fr.B.supplied.size()) + " pieces)");
        Walk w; walk_big(fr.B, got, w, bt.keys);
        if (!w.err.empty()) return Outcome::violation("round trip: " + w.err);
        std::string e = compare(orig, got, bt);
        if (!e.empty()) return Outcome::violation("round trip: " + e);
        if (!fr.B.allocated.empty()) { out.nontrivial = true; out.label("field_straddles_pieces"); }
        out.label(fr.B.supplied.size() > 1 ? "multi_piece" : "one_piece");
        fr.iov->clear();
    }
    // ---------------- checked message: every single-byte alteration is rejected
    if (std::is_same<M, BigC>::value && !c.S("flip").empty()) {
        for (long pm : c.S("flip")[0]) {
            size_t pos = std::min(flat.size() - 1, (size_t)((double)pm / 1000.0 * flat.size()));
            for (int bit : {0x01, 0x80, 0xff}) {
                std::string alt = flat; alt[pos] = (char)(alt[pos] ^ bit);
                Frag fr; fragment(alt, cuts, fr);
                rpc::DeserializerIOV des;
                M* got = des.template deserialize<M>(fr.iov.get());
                if (got) return Outcome::violation("checked message accepted after altering byte " + std::to_string(pos) + " of " + std::to_string(flat.size()));
                fr.iov->clear();
            }
        }
        out.label("checked_alterations");
        out.nontrivial = true;
    }
    // ---------------- hostile: structured mutations of the valid wire image
    if (mode == 2 && !c.S("mut").empty()) {
        std::string alt = flat;
        size_t body = alt.size() - sizeof(M);
        bool map_touched = false;
        for (auto& r : c.S("mut")) {
            long kind = r.at(0), a = r.at(1), b = r.at(2);
            auto put_len = [&](size_t off_in_body, uint64_t v) { memcpy(&alt[body + off_in_body], &v, 8); };
            static const size_t len_offs[] = {offsetof(M, b) + offsetof(rpc::buffer, _len), offsetof(M, ab) + offsetof(rpc::buffer, _len),
                                              offsetof(M, fb) + offsetof(rpc::buffer, _len), offsetof(M, arr) + offsetof(rpc::buffer, _len),
                                              offsetof(M, str) + offsetof(rpc::buffer, _len), offsetof(M, inner) + offsetof(Inner, s) + offsetof(rpc::buffer, _len),
                                              offsetof(M, map) + offsetof(decltype(M::map), index) + offsetof(rpc::buffer, _len),
                                              offsetof(M, map) + offsetof(decltype(M::map), base_buffer) + offsetof(rpc::buffer, _len),
                                              offsetof(M, iva) + offsetof(rpc::iovec_array, summed_size), offsetof(M, aiva) + offsetof(rpc::iovec_array, summed_size)};
            switch (kind) {
            case 0: {   // rewrite one length field
                size_t lo = len_offs[a % 10];
                uint64_t old; memcpy(&old, &alt[body + lo], 8);
                uint64_t nv;
                switch (b % 8) {
                case 0: nv = 0; break; case 1: nv = 1; break; case 2: nv = old + 1; break; case 3: nv = old ? old - 1 : 0; break;
                case 4: nv = alt.size(); break; case 5: nv = alt.size() + 1; break; case 6: nv = (uint64_t)1 << 40; break; default: nv = UINT64_MAX - (b % 5); break;
                }
                put_len(lo, nv);
                if (a % 10 == 6 || a % 10 == 7) map_touched = true;
                break;
            }
            case 1: {   // truncate the wire image from the front or the back
                size_t k = (size_t)(a % 40);
                if (k < alt.size()) { if (b & 1) alt.erase(0, k); else alt.resize(alt.size() - k); }
                if (alt.size() < sizeof(M)) { body = 0; } else body = alt.size() - sizeof(M);
                break;
            }
            case 2: {   // corrupt a slice inside the map index (offset/length pointing outside the base buffer)
                // index entries are pair<slice,slice> = 4 x 8 bytes; the index is in the non-aligned field area
                if (bt.keys.empty()) break;
                size_t idx_bytes = bt.keys.size() * sizeof(rpc::sorted_map<rpc::string, Inner>::ValueType);
                // locate the index: it is the second-to-last variable field before the base buffer and the body
                size_t base_len = orig.map.base_buffer.size();
                if (alt.size() < sizeof(M) + base_len + idx_bytes) break;
                size_t idx_off = alt.size() - sizeof(M) - base_len - idx_bytes;
                size_t slot = (size_t)(a % (bt.keys.size() * 4));
                uint64_t nv;
                switch (b % 6) { case 0: nv = base_len; break; case 1: nv = base_len + 1; break; case 2: nv = (uint64_t)1 << 33; break; case 3: nv = UINT64_MAX; break; case 4: nv = 0; break; default: nv = (uint64_t)-(int64_t)(1 + b % 64); break; }
                memcpy(&alt[idx_off + slot * 8], &nv, 8);
                map_touched = true;
                break;
            }
            case 3: {   // random byte overwrite anywhere
                if (alt.empty()) break;
                alt[(size_t)a % alt.size()] = (char)b;
                break;
            }
            }
        }
        Frag fr; fragment(alt, cuts, fr);
        rpc::DeserializerIOV des;
        M* got = alt.size() >= 1 ? des.template deserialize<M>(fr.iov.get()) : nullptr;
        if (got) {
            Walk w; walk_big(fr.B, got, w, bt.keys);
            if (!w.err.empty()) return Outcome::violation("hostile mutation accepted but " + w.err);
            // zero-length fields denote no bytes: checked for extent only (their address is whatever the
            // sender had; see DESIGN.md C12 notes) -- recorded as a label, not a violation
            if (w.zero_len_wild) out.label("zero_length_field_keeps_sender_address");
            out.label("hostile_accepted");
            if (w.map_entries) out.label("hostile_map_walked");
        } else out.label("hostile_rejected");
        if (map_touched) out.label("hostile_map_index_or_base");
        out.nontrivial = true;
        fr.iov->clear();
    }
    return out;
}

Outcome run_case(const Case& c) {
    static bool quiet = (set_log_output_level(ALOG_AUDIT + 1), set_log_output(log_output_null), true);
    (void)quiet;
    return c.cfg.at(1) ? run_typed<BigC>(c) : run_typed<Big>(c);
}

rc::Gen<Case> gen_case(const Options& opt) {
    bool excl_zero_wild = opt.has("zero_length_field_wild_pointer");
    bool excl_map = opt.has("hostile_map_slices");
    return rc::gen::exec([=]() {
        Case c;
        long mode = *rc::gen::weightedOneOf<long>({{3, rc::gen::just<long>(0)}, {2, rc::gen::just<long>(1)}, {4, rc::gen::just<long>(2)}});
        long checked = mode == 1 ? 1 : (mode == 2 ? *range(0, 3) == 0 : *range(0, 1));
        c.cfg = {mode, checked, *range(0, 1000000), *range(0, 1L << 40), *range(0, 70000), *range(0, 65535)};
        auto flen = []() { return rc::gen::weightedOneOf<long>({{2, rc::gen::just<long>(0)}, {2, rc::gen::just<long>(1)}, {5, vf::range(2, 40)}, {2, vf::range(41, 700)}}); };
        auto& f = c.S("f");
        for (long id = 0; id < 6; id++) {
            long len = *flen();
            if (id == 2) len = *range(0, 1) ? 8 : 0;
            if (id == 3) len = *rc::gen::weightedOneOf<long>({{2, rc::gen::just<long>(0)}, {6, vf::range(1, 30)}});
            f.push_back({id, len, *range(0, 999)});
        }
        for (const char* sec : {"iva", "aiva"}) {
            long n = *range(0, 3);
            if (n) { std::vector<long> row; for (long i = 0; i < n; i++) row.push_back(*flen()); c.S(sec).push_back(row); }
        }
        long nmap = *rc::gen::weightedOneOf<long>({{2, rc::gen::just<long>(0)}, {5, vf::range(1, 6)}});
        for (long i = 0; i < nmap; i++) c.S("map").push_back({*range(1, 12), *range(0, 999), *range(0, 70000), *range(0, 65535), *range(0, 20)});
        long ncut = *range(0, 12);
        if (ncut) { std::vector<long> row; for (long i = 0; i < ncut; i++) row.push_back(*range(1, 999)); c.S("cut").push_back(row); }
        if (checked) { std::vector<long> row; long n = *range(1, 6); for (long i = 0; i < n; i++) row.push_back(*range(0, 999)); c.S("flip").push_back(row); }
        if (mode == 2) {
            long n = *range(1, 3);
            for (long i = 0; i < n; i++) {
                long kind = *rc::gen::weightedOneOf<long>({{5, rc::gen::just<long>(0)}, {2, rc::gen::just<long>(1)}, {excl_map ? 0 : 4, rc::gen::just<long>(2)}, {2, rc::gen::just<long>(3)}});
                long a = *range(0, 4000), b = *range(0, 255);
                if (kind == 0 && excl_zero_wild && (b % 8 == 0)) b++;          // no "length := 0" (known finding)
                if (kind == 0 && excl_map && (a % 10 == 6 || a % 10 == 7)) a = a - (a % 10);
                c.S("mut").push_back({kind, a, b});
            }
        }
        return c;
    });
}

std::string describe(const Case& c) {
    std::ostringstream o;
    static const char* mn[] = {"round trip", "round trip + single-byte alterations of a checked message", "structured hostile mutation of a valid wire image"};
    o << mn[c.cfg[0]] << (c.cfg[1] ? " (CheckedMessage)" : " (Message)") << "\n fields(id,len): ";
    for (auto& r : c.S("f")) o << r[0] << ":" << r[1] << " ";
    for (const char* sec : {"iva", "aiva"}) if (!c.S(sec).empty()) { o << sec << "=["; for (long v : c.S(sec)[0]) o << v << " "; o << "] "; }
    o << "map entries=" << c.S("map").size();
    if (!c.S("cut").empty()) { o << "\n cuts(per mille)="; for (long v : c.S("cut")[0]) o << v << " "; }
    for (auto& r : c.S("mut")) o << "\n mutate kind=" << r[0] << " a=" << r[1] << " b=" << r[2];
    return o.str();
}

}  // namespace

// --emit-corpus DIR: writes a few valid wire images (+ trailer: cuts, ncuts, type) as libFuzzer seeds
static int emit_corpus(const char* dir) {
    mkdir(dir, 0755);
    int k = 0;
    for (int checked = 0; checked < 2; checked++)
        for (int variant = 0; variant < 3; variant++) {
            Case c;
            c.cfg = {0, checked, 7 + variant, 99, 5, 6};
            for (long id = 0; id < 6; id++) c.S("f").push_back({id, id == 2 ? 8 : (variant == 0 ? 3 : 2 + id * variant), 11 * id});
            if (variant) { c.S("iva").push_back({4, 0, 3}); c.S("aiva").push_back({8}); }
            for (int i = 0; i < variant * 2; i++) c.S("map").push_back({3 + i, 40 + i, 1, 2, 5});
            std::string flat;
            if (checked) { BigC m; Built bt; build(c, m, bt); rpc::SerializerIOV ser; ser.serialize(m); flat = flat_of(ser.iov); }
            else { Big m; Built bt; build(c, m, bt); rpc::SerializerIOV ser; ser.serialize(m); flat = flat_of(ser.iov); }
            // scrub sender-side pointers: they are meaningless on the wire and would make the corpus differ per run
            std::string trailer;
            if (variant == 2) { trailer.push_back((char)64); trailer.push_back((char)200); trailer.push_back((char)2); } else trailer.push_back((char)0);
            trailer.push_back((char)checked);
            std::ofstream f(std::string(dir) + "/seed" + std::to_string(k++), std::ios::binary);
            f << flat << trailer;
        }
    {   // Small
        Small m; std::string s = "hello"; m.k = 3; m.s.assign(std::string_view(s));
        std::vector<uint16_t> v = {1, 2, 3}; m.v.assign(v);
        rpc::SerializerIOV ser; ser.serialize(m);
        std::string flat = flat_of(ser.iov);
        flat.push_back((char)0); flat.push_back((char)2);
        std::ofstream f(std::string(dir) + "/seed" + std::to_string(k++), std::ios::binary);
        f << flat;
    }
    return 0;
}

int main(int argc, char** argv) {
    if (argc == 3 && !strcmp(argv[1], "--emit-corpus")) return emit_corpus(argv[2]);
    Harness h;
    h.prop = "C12";
    h.gen = gen_case;
    h.run = run_case;
    h.desc = describe;
    h.fork_per_case = true;
    h.persistent_child = true;
    return pbt_main(argc, argv, h);
}
