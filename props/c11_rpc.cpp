// C11 — RPC calls over one stub: each call gets its own response or an error; nothing touches a call after it returned.
// One vCPU (API requirement), virtual clock; the stub runs on an in-memory IStream fed by a scripted server.
#include "lab_common.h"
#include <photon/rpc/rpc.h>
#include <photon/common/stream.h>
#include <deque>

using namespace labc;
using namespace photon;

namespace {

enum { OP_CALL = 10 };

struct EchoOp {
    const static uint32_t IID = 0x11, FID = 0x22;
    struct Request : public rpc::Message { uint64_t id = 0; uint32_t want = 0; rpc::buffer buf; PROCESS_FIELDS(id, want, buf); };
    struct Response : public rpc::Message { uint64_t id = 0; rpc::buffer buf; PROCESS_FIELDS(id, buf); };
};

struct Plan {                     // how the server answers the k-th request it sees
    long delay = 0;               // before the header (decides the reply order)
    long hb_delay = 0;            // between header and body
    long tagmode = 0;             // 0 own tag, 1 unknown tag, 2 duplicate (answer twice), 3 never answer
    std::vector<long> frags;      // body fragment sizes (rest in one piece)
    long frag_delay = 0;
};

struct H;
H* g_h;

struct ScriptStream : public IStream {
    H* h;
    std::string wbuf;                     // bytes written by the client, not yet parsed
    std::deque<char> rbuf;                // bytes the client can read
    bool eof = false, shut = false;
    long fault_at = -1, fault_kind = 0;   // after `fault_at` bytes delivered: 1 error, 2 EOF
    long delivered = 0;
    uint64_t tmo = -1;
    photon::condition_variable cv_data;
    photon::mutex srv_wmutex;             // the server sends one whole message at a time
    long nreq = 0;
    explicit ScriptStream(H* hh) : h(hh) {}
    int close() override { return 0; }
    int shutdown(ShutdownHow) override { shut = true; cv_data.notify_all(); return 0; }
    uint64_t timeout() const override { return tmo; }
    bool ignore_timeout = false;          // behave like IStream's default (and the in-memory streams of the rpc tests): timeout() is a no-op
    void timeout(uint64_t t) override { if (!ignore_timeout) tmo = t; }
    ssize_t read(void* buf, size_t count) override {
        size_t got = 0;
        Timeout to(tmo);
        if (getenv("C11_DEBUG")) fprintf(stderr, "[c11] t=%lu read(%zu) starts, stream timeout %lu, by thread %p\n", (unsigned long)photon::now, count, (unsigned long)tmo, (void*)photon::CURRENT);
        while (got < count) {
            if (shut) { errno = ECONNRESET; return got ? (ssize_t)got : -1; }
            if (fault_at >= 0 && delivered >= fault_at) {
                if (fault_kind == 1) { errno = ECONNRESET; return -1; }
                return (ssize_t)got;      // EOF
            }
            if (!rbuf.empty()) { ((char*)buf)[got++] = rbuf.front(); rbuf.pop_front(); delivered++; continue; }
            if (eof) return (ssize_t)got;
            if (to.expired()) { errno = ETIMEDOUT; return -1; }
            cv_data.wait_no_lock(to);
        }
        return (ssize_t)got;
    }
    ssize_t readv(const struct iovec* iov, int iovcnt) override {
        ssize_t total = 0;
        for (int i = 0; i < iovcnt; i++) {
            if (iov[i].iov_len == 0) continue;
            ssize_t r = read(iov[i].iov_base, iov[i].iov_len);
            if (r < 0) return total ? total : -1;
            total += r;
            if ((size_t)r < iov[i].iov_len) break;
        }
        return total;
    }
    ssize_t write(const void* buf, size_t count) override { struct iovec v{(void*)buf, count}; return writev(&v, 1); }
    ssize_t writev(const struct iovec* iov, int iovcnt) override;
    void feed(const char* p, size_t n) { for (size_t i = 0; i < n; i++) rbuf.push_back(p[i]); cv_data.notify_all(); }
};

struct PendingReq { uint64_t tag; uint64_t id; uint32_t want; std::string payload; long k; };

struct H {
    Common C;
    std::unique_ptr<ScriptStream> stream;
    rpc::Stub* stub = nullptr;
    std::vector<Plan> plans;
    std::vector<photon::thread*> responders;
    std::vector<PendingReq> seen;
    uint64_t next_id = 1;
    int calls_in_flight = 0, max_in_flight = 0;
    bool any_fault = false, any_finite_timeout = false, any_bad_tag = false;
    std::set<std::string> labels;
    bool nt = false;
    long ok_calls = 0, failed_calls = 0;
    std::vector<uint64_t> completion_order, issue_order;

    static std::string g(uint64_t id, uint32_t want, const std::string& payload) {
        std::string out(want, 0);
        for (uint32_t i = 0; i < want; i++) out[i] = (char)((payload.empty() ? 0 : payload[i % payload.size()]) ^ (0x5A + (id & 31)) ^ (i * 3));
        return out;
    }
    struct RespArg { H* h; PendingReq rq; };
    static void* responder(void* a) { std::unique_ptr<RespArg> ra((RespArg*)a); ra->h->respond(ra->rq); return nullptr; }
    void respond(const PendingReq& rq) {
        Plan pl = rq.k < (long)plans.size() ? plans[rq.k] : Plan();
        if (pl.delay) photon::thread_usleep((uint64_t)pl.delay);
        if (pl.tagmode == 3) return;
        int rounds = pl.tagmode == 2 ? 2 : 1;
        for (int round = 0; round < rounds; round++) {
            // serialize the response message the way a skeleton would
            EchoOp::Response resp;
            resp.id = rq.id;
            std::string body = g(rq.id, rq.want, rq.payload);
            resp.buf.assign(body.data(), body.size());
            rpc::SerializerIOV ser; ser.serialize(resp);
            std::string flat;
            for (auto& v : ser.iov) flat.append((const char*)v.iov_base, v.iov_len);
            rpc::Header hd;
            hd.size = (uint32_t)flat.size(); hd.function = rpc::FunctionID(EchoOp::IID, EchoOp::FID);
            hd.tag = pl.tagmode == 1 ? rq.tag + 100000 : rq.tag;
            photon::scoped_lock wl(stream->srv_wmutex);
            stream->feed((const char*)&hd, sizeof hd);
            if (pl.hb_delay) photon::thread_usleep((uint64_t)pl.hb_delay);
            size_t off = 0;
            for (long f : pl.frags) {
                size_t n = std::min<size_t>((size_t)std::max<long>(1, f), flat.size() - off);
                if (!n) break;
                stream->feed(flat.data() + off, n); off += n;
                if (pl.frag_delay) photon::thread_usleep((uint64_t)pl.frag_delay);
            }
            if (off < flat.size()) stream->feed(flat.data() + off, flat.size() - off);
        }
    }
    void on_request(uint64_t tag, const std::string& payload_bytes) {
        // payload_bytes = serialized Request: [buf bytes][Request struct]
        PendingReq rq; rq.tag = tag; rq.k = stream->nreq++;
        if (payload_bytes.size() < sizeof(EchoOp::Request)) return;
        EchoOp::Request body;
        memcpy((void*)&body, payload_bytes.data() + payload_bytes.size() - sizeof(EchoOp::Request), sizeof(EchoOp::Request));
        rq.id = body.id; rq.want = body.want;
        rq.payload = payload_bytes.substr(0, payload_bytes.size() - sizeof(EchoOp::Request));
        seen.push_back(rq);
        auto th = photon::thread_create(&H::responder, new RespArg{this, rq}, 256 * 1024, 0, photon::THREAD_JOINABLE);
        responders.push_back(th);
    }
    struct CallArg { H* h; int id; const std::vector<long>* r; bool done = false; };
    static void* call_tramp(void* a) { auto ca = (CallArg*)a; ca->h->do_call_op(ca->id, *ca->r); ca->done = true; return nullptr; }
    // Each call runs in its own short-lived DETACHED photon thread: its stack is released the moment the call has
    // returned, so whatever the stub still does with the finished call's context hits freed memory (ASan).
    void run_op(int id, const std::vector<long>& r) {
        auto ca = new CallArg{this, id, &r};
        photon::thread_create(&H::call_tramp, ca, 128 * 1024);
        while (!ca->done) photon::thread_usleep(40);
        delete ca;
        C.st[id].phase = "post-call sleep";
        int sr = photon::thread_usleep(8000);
        if (sr != 0) C.L.ctl.violation("the caller was interrupted after its call had returned");
    }
    void do_call_op(int id, const std::vector<long>& r) {
        auto& ctl = C.L.ctl;
        long paylen = r.at(1), tmo = r.at(2), rmode = r.at(3), want = r.at(4);
        uint64_t my_id = next_id++;
        // request / response buffers are exact-size heap blocks freed the moment the call returns
        char* reqbuf = (char*)malloc((size_t)paylen);
        for (long i = 0; i < paylen; i++) reqbuf[i] = (char)(my_id * 7 + i);
        std::string payload(reqbuf, (size_t)paylen);
        std::string expect = g(my_id, (uint32_t)want, payload);
        EchoOp::Request req; req.id = my_id; req.want = (uint32_t)want; req.buf.assign(reqbuf, (size_t)paylen);
        C.st[id].phase = "call"; C.st[id].phase_arg = (long)my_id;
        calls_in_flight++; max_in_flight = std::max(max_in_flight, calls_in_flight);
        issue_order.push_back(my_id);
        Timeout to = tmo < 0 ? Timeout() : Timeout((uint64_t)tmo);
        int ret; std::string got; bool have = false;
        if (rmode == 2) {
            // the response vector allocates zero-filled memory (what a fresh heap usually hands out): bytes the stub
            // never received then read as an empty response instead of sanitizer fill, so a truncated reply that is
            // reported as success is visible as "response of call 0"
            struct ZA { static int alloc(void*, IOAlloc::RangeSize sz, void** p) { *p = calloc(1, (size_t)sz.max ? (size_t)sz.max : 1); return *p ? sz.max : -1; }
                        static int dealloc(void*, void* p) { free(p); return 0; } };
            IOAlloc za; za.allocate.bind(nullptr, &ZA::alloc); za.deallocate.bind(nullptr, &ZA::dealloc);
            IOVector riov(za);
            auto* resp = stub->call<EchoOp>(req, riov, to);
            ret = resp ? 0 : -1;
            if (resp) { have = true; if (resp->id != my_id) ctl.violation("call " + std::to_string(my_id) + " received the response of call " + std::to_string(resp->id)); got.assign((const char*)resp->buf.addr(), resp->buf.size()); }
        } else {
            size_t cap = (size_t)want + (rmode == 1 ? 64 : 0);
            char* respbuf = (char*)malloc(cap);
            memset(respbuf, 0xCC, cap);
            EchoOp::Response resp; resp.buf.assign(respbuf, cap);
            ret = stub->call<EchoOp>(req, resp, to);
            if (ret >= 0) {
                have = true;
                if (resp.id != my_id) ctl.violation("call " + std::to_string(my_id) + " received the response of call " + std::to_string(resp.id));
                // with an exact-size buffer the bytes land in place and the struct is taken from the wire verbatim
                // (its pointer is the sender's): callers read their own buffer
                if (resp.buf.size() > cap) ctl.violation("response field length exceeds the caller's buffer");
                const char* src = rmode == 0 ? respbuf : (const char*)resp.buf.addr();
                got.assign(src, resp.buf.size());
            }
            free(respbuf);
        }
        int en = errno;
        if (getenv("C11_DEBUG")) fprintf(stderr, "[c11] t=%lu call %lu returned ret=%d errno=%d have=%d\n", (unsigned long)photon::now, (unsigned long)my_id, ret, en, (int)have);
        free(reqbuf);
        calls_in_flight--;
        if (have) {
            ok_calls++; completion_order.push_back(my_id);
            if (got != expect) ctl.violation("call " + std::to_string(my_id) + " reported success but its response payload (" + std::to_string(got.size()) + " bytes) is not the one the server produced for it (" + std::to_string(expect.size()) + " bytes)");
        } else {
            failed_calls++;
            if (ret >= 0) ctl.violation("call returned no response but ret >= 0");
            if (!any_fault && !any_bad_tag && !any_finite_timeout)
                ctl.violation("call " + std::to_string(my_id) + " failed (errno " + std::to_string(en) + ") although the script has no fault, no foreign tag and no finite timeout");
            labels.insert("call_failed");
        }
        // after return nothing may touch this call: a stray interrupt from the reader would end this sleep early
    }
};

ssize_t ScriptStream::writev(const struct iovec* iov, int iovcnt) {
    if (shut) { errno = ECONNRESET; return -1; }
    ssize_t total = 0;
    for (int i = 0; i < iovcnt; i++) { wbuf.append((const char*)iov[i].iov_base, iov[i].iov_len); total += (ssize_t)iov[i].iov_len; }
    while (wbuf.size() >= sizeof(rpc::Header)) {
        rpc::Header hd; memcpy((void*)&hd, wbuf.data(), sizeof hd);
        if (hd.magic != rpc::Header::MAGIC) h->C.L.ctl.violation("client wrote a request without the RPC magic");
        if (wbuf.size() < sizeof hd + hd.size) break;
        std::string payload = wbuf.substr(sizeof hd, hd.size);
        wbuf.erase(0, sizeof hd + hd.size);
        h->on_request(hd.tag, payload);
    }
    return total;
}

Outcome run_case(const Case& c) {
    H h; g_h = &h;
    for (auto& r : c.S("plan")) {
        Plan p; p.delay = r.at(0); p.hb_delay = r.at(1); p.tagmode = r.at(2); p.frag_delay = r.at(3);
        for (size_t i = 4; i < r.size(); i++) p.frags.push_back(r[i]);
        h.plans.push_back(p);
        if (p.tagmode == 1 || p.tagmode == 2) h.any_bad_tag = true;
        if (p.tagmode == 3) h.any_fault = true;
    }
    long fault_at = c.cfg.at(5), fault_kind = c.cfg.at(6);
    if (fault_kind) h.any_fault = true;
    for (auto& s : c.sec) if (s.first[0] == 'a' && s.first != "actor") for (auto& r : s.second) if (!r.empty() && r[0] == OP_CALL && r.at(2) >= 0) h.any_finite_timeout = true;
    h.C.horizon_extra = 200000;
    h.C.setup(c, [&](int id, const std::vector<long>& r) { h.run_op(id, r); });
    auto& ctl = h.C.L.ctl;
    h.C.L.vcpu_setup = [&](int) {
        h.stream.reset(new ScriptStream(&h));
        if (fault_kind) { h.stream->fault_at = fault_at; h.stream->fault_kind = fault_kind; }
        h.stream->ignore_timeout = c.cfg.size() > 7 && c.cfg[7] != 0;
        h.stub = rpc::new_rpc_stub(h.stream.get(), false);
    };
    h.C.L.vcpu_teardown = [&](int) {
        for (auto th : h.responders) photon::thread_join((photon::join_handle*)th);
        if (h.stub->get_queue_count() != 0) ctl.violation("ooo queue count is " + std::to_string(h.stub->get_queue_count()) + " after every call returned");
        delete h.stub; h.stub = nullptr;
    };
    ctl.on_quiescence = [&]() { ctl.violation("quiescence with callers still blocked:" + h.C.blocked_report()); };
    h.C.L.run();
    Outcome& out = ctl.out;
    // permuted replies with >= 2 calls in flight
    bool permuted = false;
    {
        std::vector<uint64_t> a = h.completion_order; std::vector<uint64_t> b;
        for (uint64_t id : h.issue_order) if (std::find(a.begin(), a.end(), id) != a.end()) b.push_back(id);
        permuted = a != b;
    }
    out.nontrivial = (h.max_in_flight >= 2 && permuted) || (h.any_finite_timeout && h.failed_calls > 0 && h.ok_calls > 0);
    if (h.max_in_flight >= 2) out.label("calls_overlapped");
    if (permuted) out.label("replies_permuted");
    if (h.failed_calls && h.ok_calls) out.label("mixed_success_and_failure");
    if (h.any_fault) out.label("script_has_fault"); if (h.any_bad_tag) out.label("script_has_bad_tag"); if (h.any_finite_timeout) out.label("finite_timeouts");
    for (auto& l : h.labels) out.label(l);
    return out;
}

rc::Gen<Case> gen_case(const vf::Options& opt) {
    bool excl_follower_timeout = opt.has("follower_timeout_during_collect");
    return rc::gen::exec([=]() {
        Case c;
        long na = *vf::range(1, 8);
        long style = *rc::gen::weightedOneOf<long>({{4, rc::gen::just<long>(0)}, {3, rc::gen::just<long>(1)}, {2, rc::gen::just<long>(2)}});   // 0 clean, 1 timeouts, 2 faults/bad tags
        if (excl_follower_timeout && style == 1) style = 0;
        long fault_kind = style == 2 && *vf::range(0, 2) == 0 ? *vf::range(1, 2) : 0;
        // a stream whose reads are not bounded by timeout() only when every request is answered (otherwise the reader would legitimately block for ever)
        c.cfg = {1, 0, 0, 0, 0, *vf::range(0, 600), fault_kind, style != 2 ? *vf::range(0, 1) : 0};
        for (long i = 0; i < na; i++) c.S("actor").push_back({0, 0});
        if (style == 1 && na >= 2 && *vf::range(0, 1)) {
            // "straddle" family: every reply's header arrives after d and its body h later; the first caller waits
            // without timeout (it becomes the reader), the others give up in between
            long d = *vf::range(20, 400), hgap = *vf::range(100, 3000);
            long total = 0;
            if (na >= 3 && *vf::range(0, 1)) {
                // variant: the first caller (no timeout) is answered last, so it stays the reader while the others'
                // replies arrive one after the other (follower k's header at about d + (k-1)*hgap, its body hgap later).
                // One follower F gives up inside its own reply (the reader is in its buffers), a later-answered
                // follower G gives up shortly afterwards (its return notifies the waiters); the rest wait it out.
                long nb = *rc::gen::weightedOneOf<long>({{2, rc::gen::just<long>(3)}, {1, rc::gen::just<long>((long)na)}});
                long f = *vf::range(1, nb - 2), g = *vf::range(f + 1, nb - 1);
                long win = d + (f - 1) * hgap;
                c.S("a0").push_back({OP_CALL, *vf::range(1, 64), -1, *vf::range(0, 2), *vf::range(1, 128)});
                for (long i = 1; i < nb; i++) {
                    auto& prog = c.S("a" + std::to_string(i));
                    prog.push_back({OP_SLEEP, i * 3});
                    long tmo = i == f ? win + *vf::range(10, hgap / 2) : i == g ? win + *vf::range(hgap / 2 + 1, hgap - 10)
                             : *rc::gen::weightedOneOf<long>({{2, rc::gen::just<long>((long)(d + (nb + 3) * hgap + 20000))}, {1, rc::gen::map(vf::range(0, nb * hgap), [d](long x) { return d + x; })}});
                    prog.push_back({OP_CALL, *vf::range(1, 64), std::max<long>(1, tmo - i * 3), *vf::range(0, 2), *vf::range(1, 128)});
                }
                c.S("plan").push_back({d + (nb + 2) * hgap + 5000, *vf::range(0, 50), 0, 0});
                for (long k = 1; k < nb; k++) c.S("plan").push_back({d, hgap, 0, 0});
                c.S("sched") = *gen_schedule(6);
                return c;
            }
            for (long i = 0; i < na; i++) {
                auto& prog = c.S("a" + std::to_string(i));
                if (i) prog.push_back({OP_SLEEP, *vf::range(1, 15)});
                long n = i == 0 ? 1 : *vf::range(1, 2);
                for (long k = 0; k < n; k++) { prog.push_back({OP_CALL, *vf::range(1, 64), i == 0 ? -1 : d + *vf::range(10, hgap), *vf::range(0, 2), *vf::range(1, 128)}); total++; }
            }
            for (long k = 0; k < total; k++) c.S("plan").push_back({d + k * *vf::range(0, 50), hgap, 0, 0});
            c.S("sched") = *gen_schedule(6);
            return c;
        }
        long ncalls = 0;
        for (long i = 0; i < na; i++) {
            long n = *vf::range(1, 4);
            auto& prog = c.S("a" + std::to_string(i));
            for (long k = 0; k < n; k++) {
                if (*vf::range(0, 3) == 0) prog.push_back({OP_SLEEP, *vf::range(0, 400)});
                long tmo = style == 0 ? -1 : (style == 1 ? *rc::gen::weightedOneOf<long>({{2, rc::gen::just<long>(-1)}, {5, vf::range(50, 5000)}}) : *rc::gen::weightedOneOf<long>({{1, rc::gen::just<long>(-1)}, {3, vf::range(500, 20000)}}));
                if (style == 2) tmo = std::max<long>(tmo, 500);   // with faults every caller needs a way out
                prog.push_back({OP_CALL, *rc::gen::weightedOneOf<long>({{1, rc::gen::just<long>(0)}, {4, vf::range(1, 64)}, {2, vf::range(65, 2048)}}), tmo, *vf::range(0, 2),
                                *rc::gen::weightedOneOf<long>({{1, rc::gen::just<long>(0)}, {4, vf::range(1, 64)}, {2, vf::range(65, 2048)}})});
                ncalls++;
            }
        }
        for (long k = 0; k < ncalls; k++) {
            long tagmode = style == 2 ? *rc::gen::weightedOneOf<long>({{6, rc::gen::just<long>(0)}, {1, rc::gen::just<long>(1)}, {1, rc::gen::just<long>(2)}, {1, rc::gen::just<long>(3)}}) : 0;
            std::vector<long> row = {*rc::gen::weightedOneOf<long>({{2, rc::gen::just<long>(0)}, {4, vf::range(1, 600)}, {1, vf::range(601, 6000)}}),
                                     *rc::gen::weightedOneOf<long>({{3, rc::gen::just<long>(0)}, {3, vf::range(1, 800)}, {1, vf::range(801, 6000)}}),
                                     tagmode, *rc::gen::weightedOneOf<long>({{3, rc::gen::just<long>(0)}, {2, vf::range(1, 300)}})};
            long nf = *vf::range(0, 3);
            for (long j = 0; j < nf; j++) row.push_back(*vf::range(1, 200));
            c.S("plan").push_back(row);
        }
        c.S("sched") = *gen_schedule(10);
        return c;
    });
}

std::string opname(const std::vector<long>& r) {
    if (r[0] != OP_CALL) return "op" + std::to_string(r[0]);
    std::ostringstream o;
    o << "call(payload " << r[1] << "B, timeout " << (r[2] < 0 ? std::string("inf") : std::to_string(r[2])) << ", resp " << (r[3] == 0 ? "exact buffer" : r[3] == 1 ? "larger buffer" : "stub-allocated") << " " << r[4] << "B)";
    return o.str();
}
}  // namespace

int main(int argc, char** argv) {
    vf::Harness h;
    h.prop = "C11";
    h.gen = gen_case;
    h.run = run_case;
    h.desc = [](const Case& c) {
        std::ostringstream o;
        o << "stream " << (c.cfg.size() > 7 && c.cfg[7] ? "ignores timeout() (IStream default)" : "honours timeout()") << "; fault: " << (c.cfg[6] == 0 ? "none" : c.cfg[6] == 1 ? "error" : "EOF") << " after " << c.cfg[5] << " bytes; server plans (delay, header->body delay, tag mode, frag delay, frags...):";
        for (auto& r : c.S("plan")) { o << " ["; for (long v : r) o << v << " "; o << "]"; }
        return o.str() + "\n" + describe_common(c, opname);
    };
    h.fork_per_case = true;
    h.persistent_child = true;     // a child serves cases until one ends abnormally (finish_now), then it is replaced
    return vf::pbt_main(argc, argv, h);
}
