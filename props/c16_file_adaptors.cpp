// C16 — file adaptors (aligned, fixed/variable linear, stripe) are transparent.
// Oracle: a reference byte array with plain-file semantics; a recording in-memory underlay.
#include "pbt.h"
#include <photon/fs/filesystem.h>
#include <photon/fs/virtual-file.h>
#include <photon/fs/aligned-file.h>
#include <photon/fs/xfile.h>
#include <photon/common/alog.h>
#include <sys/stat.h>

using namespace vf;
using namespace photon::fs;

namespace {

struct CallRec { const char* op; off_t off; size_t len; std::vector<std::pair<const void*, size_t>> bufs; };

struct MemFile : public VirtualFile {
    std::vector<unsigned char> data;
    std::vector<CallRec>* log = nullptr;
    bool fixed = false;       // sub-file of a composite: size never changes
    IFileSystem* filesystem() override { return nullptr; }
    void rec(const char* op, off_t off, const struct iovec* iov, int n) {
        if (!log) return;
        CallRec r; r.op = op; r.off = off; r.len = 0;
        for (int i = 0; i < n; i++) { r.len += iov[i].iov_len; r.bufs.push_back({iov[i].iov_base, iov[i].iov_len}); }
        log->push_back(r);
    }
    ssize_t preadv(const struct iovec* iov, int n, off_t off) override {
        rec("preadv", off, iov, n);
        if (off < 0) { errno = EINVAL; return -1; }
        size_t pos = (size_t)off, done = 0;
        for (int i = 0; i < n; i++) {
            if (pos >= data.size()) break;
            size_t k = std::min(iov[i].iov_len, data.size() - pos);
            memcpy(iov[i].iov_base, data.data() + pos, k);
            pos += k; done += k;
            if (k < iov[i].iov_len) break;
        }
        return (ssize_t)done;
    }
    ssize_t pwritev(const struct iovec* iov, int n, off_t off) override {
        rec("pwritev", off, iov, n);
        if (off < 0) { errno = EINVAL; return -1; }
        size_t pos = (size_t)off, done = 0;
        for (int i = 0; i < n; i++) {
            size_t k = iov[i].iov_len;
            if (fixed) { if (pos >= data.size()) break; k = std::min(k, data.size() - pos); }
            if (pos + k > data.size()) data.resize(pos + k, 0);
            memcpy(data.data() + pos, iov[i].iov_base, k);
            pos += k; done += k;
            if (k < iov[i].iov_len) break;
        }
        return (ssize_t)done;
    }
    ssize_t pread(void* buf, size_t count, off_t off) override { iovec v{buf, count}; return preadv(&v, 1, off); }
    ssize_t pwrite(const void* buf, size_t count, off_t off) override { iovec v{(void*)buf, count}; return pwritev(&v, 1, off); }
    int fstat(struct stat* st) override { memset(st, 0, sizeof *st); st->st_size = (off_t)data.size(); st->st_mode = S_IFREG | 0644; return 0; }
    int ftruncate(off_t len) override { if (log) log->push_back(CallRec{"ftruncate", len, 0, {}}); data.resize((size_t)len, 0); return 0; }
    int fsync() override { return 0; }
    int fdatasync() override { return 0; }
    int fchmod(mode_t) override { return 0; }
    int fchown(uid_t, gid_t) override { return 0; }
    int close() override { return 0; }
};

enum { A_ALIGNED = 0, A_FIXED_LINEAR = 1, A_VAR_LINEAR = 2, A_STRIPE = 3 };
enum { O_PREAD, O_PWRITE, O_PREADV, O_PWRITEV, O_PREADV_MUT, O_PWRITEV_MUT, O_PREADV2, O_PWRITEV2, NOPS };
const char* OPN[] = {"pread", "pwrite", "preadv", "pwritev", "preadv_mutable", "pwritev_mutable", "preadv2", "pwritev2"};

unsigned char content(long fileid, size_t i) { return (unsigned char)((fileid * 37 + i * 11 + (i >> 7) * 3 + 1) & 0xff); }

}  // namespace

// cfg: [adaptor, p1, p2, nfiles, initial_size(aligned only)]
//   aligned: p1 = alignment, p2 = align_memory ; fixed linear: p1 = unit ; stripe: p1 = stripe, p2 = stripes per file
// sub:  rows [size] for variable linear
// op:   rows [op, offset, length, bufalign(0/1), seg lens ...]   (seg lens partition `length` for vectored ops)
static Outcome run_case(const Case& c) {
    static bool quiet = (set_log_output_level(ALOG_AUDIT + 1), set_log_output(log_output_null), true);
    (void)quiet;
    Outcome out;
    int ad = (int)c.cfg.at(0);
    long p1 = c.cfg.at(1), p2 = c.cfg.at(2), nfiles = c.cfg.at(3), isize = c.cfg.at(4);
    std::vector<CallRec> log;
    std::vector<std::unique_ptr<MemFile>> files;
    std::vector<IFile*> fptrs;
    std::vector<unsigned char> ref;
    IFile* f = nullptr;
    std::vector<uint64_t> bounds;       // boundaries inside the logical file, for the non-triviality rule
    if (ad == A_ALIGNED) {
        files.emplace_back(new MemFile);
        files[0]->data.resize(isize);
        for (long i = 0; i < isize; i++) files[0]->data[i] = content(0, i);
        ref = files[0]->data;
        files[0]->log = &log;
        f = new_aligned_file_adaptor(files[0].get(), (uint32_t)p1, p2 != 0, false, nullptr);
    } else {
        std::vector<long> sizes;
        if (ad == A_FIXED_LINEAR) sizes.assign(nfiles, p1);
        else if (ad == A_STRIPE) sizes.assign(nfiles, p1 * p2);
        else for (auto& r : c.S("sub")) sizes.push_back(r.at(0));
        if (sizes.empty()) { out.status = Outcome::INCONCLUSIVE; out.msg = "no sub-files"; return out; }
        for (size_t k = 0; k < sizes.size(); k++) {
            files.emplace_back(new MemFile);
            files[k]->fixed = true;
            files[k]->data.resize(sizes[k]);
            for (long i = 0; i < sizes[k]; i++) files[k]->data[i] = content((long)k + 1, i);
            fptrs.push_back(files[k].get());
        }
        if (ad == A_FIXED_LINEAR) f = new_fixed_size_linear_file(p1, fptrs.data(), fptrs.size(), false);
        else if (ad == A_VAR_LINEAR) f = new_linear_file(fptrs.data(), fptrs.size(), false);
        else f = new_stripe_file(p1, fptrs.data(), fptrs.size(), false);
        // reference content = logical layout
        if (ad == A_STRIPE) {
            size_t total = (size_t)(p1 * p2 * nfiles);
            ref.resize(total);
            for (size_t i = 0; i < total; i++) {
                size_t stripe = i / p1, inoff = i % p1;
                size_t fi = stripe % nfiles, pos = (stripe / nfiles) * p1 + inoff;
                ref[i] = files[fi]->data[pos];
            }
        } else {
            for (auto& mf : files) ref.insert(ref.end(), mf->data.begin(), mf->data.end());
        }
    }
    if (!f) return Outcome::violation("adaptor construction failed");
    std::unique_ptr<IFile> fguard(f);
    bool composite = ad != A_ALIGNED;
    uint64_t block = ad == A_ALIGNED ? p1 : ad == A_FIXED_LINEAR ? p1 : ad == A_STRIPE ? p1 : 0;
    int step = 0;
    bool nt = false;
    std::set<std::string> labels;
    auto logical = [&]() -> std::vector<unsigned char> {
        if (ad == A_ALIGNED) return files[0]->data;
        std::vector<unsigned char> v;
        if (ad == A_STRIPE) {
            size_t total = ref.size(); v.resize(total);
            for (size_t i = 0; i < total; i++) { size_t stripe = i / p1, inoff = i % p1; v[i] = files[stripe % nfiles]->data[(stripe / nfiles) * p1 + inoff]; }
        } else for (auto& mf : files) v.insert(v.end(), mf->data.begin(), mf->data.end());
        return v;
    };
    for (auto& r : c.S("op")) {
        step++;
        int op = (int)r.at(0);
        size_t off = (size_t)r.at(1), len = (size_t)r.at(2);
        bool balign = r.at(3) != 0;
        if (off >= ref.size()) continue;        // outside the statement
        bool is_write = (op & 1);
        bool vectored = op >= O_PREADV;
        // segmentation
        std::vector<size_t> segs;
        if (vectored) {
            size_t left = len;
            for (size_t i = 4; i < r.size() && left > 0; i++) { size_t s = std::min<size_t>((size_t)r[i], left); segs.push_back(s); left -= s; }
            if (left > 0 || segs.empty()) segs.push_back(left);
            if (segs.size() > 24) { size_t extra = 0; while (segs.size() > 24) { extra += segs.back(); segs.pop_back(); } segs.back() += extra; }
        } else segs.push_back(len);
        // With align_memory every element the caller supplies must itself be aligned for the fast path; the
        // adaptor bounces otherwise.  Either way the result must be the same.
        std::vector<void*> bufs; std::vector<iovec> iov;
        size_t A = ad == A_ALIGNED ? (size_t)p1 : 1;
        size_t pos = 0;
        for (size_t s : segs) {
            void* p = nullptr;
            if (balign && A > 1) { if (posix_memalign(&p, std::max<size_t>(A, sizeof(void*)), s ? s : 1)) p = nullptr; }
            else {   // deliberately unaligned when A > 1: offset by one inside an exact block is not possible, so use malloc(s) (8/16-aligned) and, for A<=16, shift via a larger block
                p = malloc(s);
            }
            bufs.push_back(p);
            if (is_write) for (size_t i = 0; i < s; i++) ((unsigned char*)p)[i] = (unsigned char)(0x80 ^ ((step * 29 + pos + i) * 13));
            else memset(p, 0x5A, s);
            iov.push_back({p, s});
            pos += s;
        }
        struct FreeAll { std::vector<void*>& b; ~FreeAll() { for (void* p : b) free(p); } } fa{bufs};
        std::vector<iovec> iov_copy = iov;     // *_mutable may scribble on the array
        size_t before_size = ref.size();
        log.clear();
        ssize_t ret;
        switch (op) {
        case O_PREAD: ret = f->pread(iov[0].iov_base, len, off); break;
        case O_PWRITE: ret = f->pwrite(iov[0].iov_base, len, off); break;
        case O_PREADV: ret = f->preadv(iov.data(), (int)iov.size(), off); break;
        case O_PWRITEV: ret = f->pwritev(iov.data(), (int)iov.size(), off); break;
        case O_PREADV_MUT: ret = f->preadv_mutable(iov.data(), (int)iov.size(), off); break;
        case O_PWRITEV_MUT: ret = f->pwritev_mutable(iov.data(), (int)iov.size(), off); break;
        case O_PREADV2: ret = f->preadv2(iov.data(), (int)iov.size(), off, 0); break;
        default: ret = f->pwritev2(iov.data(), (int)iov.size(), off, 0); break;
        }
        std::ostringstream where;
        where << "step " << step << " " << OPN[op] << "(off=" << off << ", len=" << len << ", segs=" << segs.size() << ")";
        // ---- reference
        size_t expn;
        if (!is_write) expn = std::min(len, ref.size() - off);
        else if (composite) expn = std::min(len, ref.size() - off);
        else expn = len;
        if (ret != (ssize_t)expn) return Outcome::violation(where.str() + " returned " + std::to_string(ret) + ", plain file gives " + std::to_string(expn));
        if (is_write) {
            if (off + expn > ref.size()) ref.resize(off + expn, 0);
            size_t k = 0;
            for (auto& v : iov_copy) for (size_t i = 0; i < v.iov_len && k < expn; i++, k++) ref[off + k] = ((unsigned char*)v.iov_base)[i];
        } else {
            size_t k = 0;
            for (auto& v : iov_copy)
                for (size_t i = 0; i < v.iov_len; i++, k++) {
                    unsigned char got = ((unsigned char*)v.iov_base)[i];
                    if (k < expn) { if (got != ref[off + k]) return Outcome::violation(where.str() + " data differs at byte " + std::to_string(k)); }
                    else if (got != 0x5A) return Outcome::violation(where.str() + " wrote beyond the returned count at byte " + std::to_string(k));
                }
        }
        std::vector<unsigned char> now = logical();
        if (now.size() != ref.size()) return Outcome::violation(where.str() + ": size is " + std::to_string(now.size()) + ", plain file has " + std::to_string(ref.size()));
        for (size_t i = 0; i < now.size(); i++)
            if (now[i] != ref[i]) return Outcome::violation(where.str() + ": content differs from the plain file at offset " + std::to_string(i));
        // ---- alignment of underlay requests
        if (ad == A_ALIGNED)
            for (auto& cr : log) {
                if (!strcmp(cr.op, "ftruncate")) continue;
                if (cr.off % A || cr.len % A) return Outcome::violation(where.str() + ": underlay " + cr.op + "(off=" + std::to_string(cr.off) + ", len=" + std::to_string(cr.len) + ") not aligned to " + std::to_string(A));
                if (p2) for (auto& b : cr.bufs) if (((uintptr_t)b.first) % A) return Outcome::violation(where.str() + ": underlay " + cr.op + " got an unaligned buffer although align_memory is set");
            }
        // ---- labels
        bool un_b, un_e, crosses;
        if (ad == A_VAR_LINEAR) {
            std::vector<size_t> kp; size_t cur = 0; for (auto& mf : files) { kp.push_back(cur); cur += mf->data.size(); }
            kp.push_back(cur);
            un_b = std::find(kp.begin(), kp.end(), off) == kp.end();
            un_e = std::find(kp.begin(), kp.end(), off + expn) == kp.end();
            crosses = false; for (size_t b : kp) if (b > off && b < off + expn) crosses = true;
        } else {
            un_b = off % block != 0; un_e = (off + expn) % block != 0;
            crosses = expn > 0 && off / block != (off + expn - 1) / block;
        }
        if (un_b && un_e && crosses) { nt = true; labels.insert("unaligned_both_ends_crossing_boundary"); }
        if (is_write && off + expn > before_size && (off + expn) % std::max<uint64_t>(block, 1)) { nt = true; labels.insert("write_extends_by_partial_block"); }
        if (!is_write && len > expn) labels.insert("read_past_eof_clipped");
        if (is_write && composite && len > expn) labels.insert("write_past_end_clipped");
        labels.insert(std::string("op:") + OPN[op]);
        if (segs.size() > 1) labels.insert("multi_segment");
    }
    out.nontrivial = nt;
    static const char* an[] = {"adaptor:aligned", "adaptor:fixed_linear", "adaptor:var_linear", "adaptor:stripe"};
    out.label(an[ad]);
    for (auto& l : labels) out.label(l);
    return out;
}

static rc::Gen<Case> gen_case(const Options&) {
    return rc::gen::exec([]() {
        Case c;
        long ad = *range(0, 3);
        long total = 0, block = 1;
        if (ad == A_ALIGNED) {
            long A = *oneof<long>({8, 16, 512, 4096});
            long am = *range(0, 1);
            long isize = *rc::gen::weightedOneOf<long>({{2, range(1, 3 * A)}, {2, vf::range(1, 6)}, {1, rc::gen::map(vf::range(1, 5), [A](long k) { return k * A; })}});
            c.cfg = {ad, A, am, 1, isize};
            total = isize; block = A;
        } else if (ad == A_FIXED_LINEAR) {
            long unit = *oneof<long>({3, 4, 7, 16, 4096});
            long n = *range(1, 4);
            c.cfg = {ad, unit, 0, n, 0};
            total = unit * n; block = unit;
        } else if (ad == A_VAR_LINEAR) {
            long n = *range(1, 4);
            for (long i = 0; i < n; i++) { long s = *range(1, 40); c.S("sub").push_back({s}); total += s; }
            c.cfg = {ad, 0, 0, n, 0};
            block = 8;
        } else {
            long stripe = *oneof<long>({1, 2, 4, 4096});
            long per = *range(1, 3), n = *range(1, 4);
            c.cfg = {ad, stripe, per, n, 0};
            total = stripe * per * n; block = stripe;
        }
        long nops = *range(1, 8);
        long cur = total;
        for (long i = 0; i < nops; i++) {
            long op = *range(0, NOPS - 1);
            // offset inside the file, aimed at block boundaries
            long off;
            switch (*range(0, 3)) {
            case 0: off = (*range(0, cur / block)) * block; break;
            case 1: off = (*range(0, cur / block)) * block + *range(-1, 1); break;
            default: off = *range(0, cur - 1); break;
            }
            if (off < 0) off = 0;
            if (off >= cur) off = cur - 1;
            long len;
            switch (*range(0, 4)) {
            case 0: len = *range(0, 3); break;
            case 1: len = (*range(0, 3)) * block + *range(-1, 1); break;
            case 2: len = cur - off + *range(-1, 2); break;           // to EOF, one short, one/two past
            case 3: len = *range(0, 2 * block + 3); break;
            default: len = *range(0, cur + block); break;
            }
            if (len < 0) len = 0;
            if (len > 20000) len = 20000;
            std::vector<long> row = {op, off, len, *range(0, 1)};
            if (op >= O_PREADV) {
                long ns = *range(1, 5);
                for (long j = 0; j < ns; j++) row.push_back(*rc::gen::weightedOneOf<long>({{1, rc::gen::just<long>(0)}, {3, vf::range(1, 9)}, {2, vf::range(1, block + 1)}, {1, vf::range(1, len + 1)}}));
            }
            c.S("op").push_back(row);
            if ((op & 1) && ad == A_ALIGNED && off + len > cur) cur = off + len;
        }
        return c;
    });
}

static std::string describe(const Case& c) {
    std::ostringstream o;
    switch (c.cfg[0]) {
    case A_ALIGNED: o << "aligned adaptor alignment=" << c.cfg[1] << " align_memory=" << c.cfg[2] << " initial size=" << c.cfg[4]; break;
    case A_FIXED_LINEAR: o << "fixed-size linear file unit=" << c.cfg[1] << " x " << c.cfg[3] << " files"; break;
    case A_VAR_LINEAR: o << "linear file of sub-files ["; for (auto& r : c.S("sub")) o << r[0] << " "; o << "]"; break;
    default: o << "stripe file stripe=" << c.cfg[1] << " stripes/file=" << c.cfg[2] << " files=" << c.cfg[3]; break;
    }
    o << "\n";
    for (auto& r : c.S("op")) {
        o << "  " << OPN[r[0]] << "(off=" << r[1] << ", len=" << r[2] << (r[3] ? ", aligned bufs" : "");
        if (r.size() > 4) { o << ", segs="; for (size_t i = 4; i < r.size(); i++) o << r[i] << " "; }
        o << ")\n";
    }
    return o.str();
}

int main(int argc, char** argv) {
    Harness h;
    h.prop = "C16";
    h.gen = gen_case;
    h.run = run_case;
    h.desc = describe;
    h.fork_per_case = true;
    h.persistent_child = true;
    return pbt_main(argc, argv, h);
}
