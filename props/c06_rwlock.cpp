// C06 — reader-writer locks (rwlock, qrwlock): writers exclusive, readers shared, failed lock is a no-op.
#include "lab_common.h"

using namespace labc;

namespace {

enum { OP_RW_SECTION = 10, OP_TRY_SECTION = 11 };

struct PRw : public photon::rwlock { int64_t st() { return state; } };
struct PQ : public photon::qrwlock { int64_t st() { return lock_state.load(); } };

struct H {
    Common C;
    bool use_q = false;
    PRw rw; PQ q;
    int readers = 0, writers = 0;
    int in_call = 0;                 // actors currently inside a lock/unlock call
    std::set<std::string> labels;
    bool nt = false;
    int waiting_now = 0;             // actors currently inside a blocking lock()

    int64_t st() { return use_q ? q.st() : rw.st(); }
    void check_state(const char* where) {
        if (in_call != 0) return;    // somebody is half-way through a call: the word may legitimately lag
        int64_t expect = writers ? -1 : readers;
        if (st() != expect) {
            std::ostringstream o; o << where << ": lock state word is " << st() << " but the holders are " << readers << " reader(s) / " << writers << " writer(s)";
            C.L.ctl.violation(o.str());
        }
    }
    void section(int id, const std::vector<long>& r, bool use_try) {
        auto& ctl = C.L.ctl;
        int mode = r.at(1) ? photon::WLOCK : photon::RLOCK;
        long tmo = r.at(2), body = r.at(3), barg = r.at(4);
        C.st[id].phase = use_try ? "try_lock" : (mode == photon::WLOCK ? "lock(W)" : "lock(R)"); C.st[id].phase_arg = tmo;
        in_call++; if (!use_try) waiting_now++;
        int others_waiting = waiting_now - 1;
        int ret;
        if (use_try) ret = q.try_lock(mode);
        else ret = use_q ? q.lock(mode, tmo < 0 ? photon::Timeout() : photon::Timeout((uint64_t)tmo))
                         : rw.lock(mode, tmo < 0 ? photon::Timeout() : photon::Timeout((uint64_t)tmo));
        int en = errno;
        in_call--; if (!use_try) waiting_now--;
        if (ret != 0) {
            if (!use_try) {
                if (tmo < 0 && C.st[id].ints_received == 0)
                    ctl.violation("actor" + std::to_string(id) + ": untimed lock failed (errno " + std::to_string(en) + ") although nobody interrupted it");
                labels.insert("lock_failed");
                if (others_waiting > 0 || waiting_now > 0) { nt = true; labels.insert("waiter_failed_with_others_queued"); }
            } else labels.insert("try_lock_failed");
            check_state("after a failed lock");
            return;
        }
        if (mode == photon::WLOCK) {
            if (readers || writers) ctl.violation("actor" + std::to_string(id) + " got the write lock while " + std::to_string(readers) + " reader(s) and " + std::to_string(writers) + " writer(s) hold it");
            writers++;
        } else {
            if (writers) ctl.violation("actor" + std::to_string(id) + " got a read lock while a writer holds the lock");
            readers++;
            if (readers >= 2) labels.insert("readers_shared");
        }
        check_state("after lock");
        C.st[id].phase = "inside section";
        if (body == 1) photon::thread_yield(); else if (body == 2) photon::thread_usleep((uint64_t)barg);
        if (mode == photon::WLOCK) { if (writers != 1 || readers) ctl.violation("writer's exclusivity broken while inside"); writers--; }
        else { if (writers) ctl.violation("a writer entered while a reader is inside"); readers--; }
        C.st[id].phase = "unlock";
        in_call++;
        int ur = use_q ? q.unlock() : rw.unlock();
        in_call--;
        if (ur != 0) ctl.violation("unlock returned " + std::to_string(ur));
        check_state("after unlock");
    }
};

Outcome run_case(const Case& c) {
    H h;
    h.use_q = c.cfg.at(5) != 0;
    h.C.setup(c, [&](int id, const std::vector<long>& r) { h.section(id, r, r[0] == OP_TRY_SECTION); });
    auto& ctl = h.C.L.ctl;
    ctl.on_quiescence = [&]() {
        std::ostringstream o;
        o << "quiescence with actors still blocked:" << h.C.blocked_report() << "; state word=" << h.st() << " holders: " << h.readers << "R/" << h.writers << "W";
        ctl.violation(o.str());
    };
    h.C.L.run();
    if (h.st() != 0) return Outcome::violation("lock state word is " + std::to_string(h.st()) + " after every actor finished");
    Outcome& out = ctl.out;
    out.nontrivial = h.nt;
    for (auto& l : h.labels) out.label(l);
    out.label(h.use_q ? "impl:qrwlock" : "impl:rwlock");
    h.C.L.stats_labels(out);
    return out;
}

rc::Gen<Case> gen_case(const vf::Options&) {
    return rc::gen::exec([]() {
        Case c;
        long na = gen_common(c, 2, 5, 0);
        long use_q = *vf::range(0, 1);
        c.cfg.push_back(use_q);
        for (long i = 0; i < na; i++) {
            long n = *vf::range(1, 4);
            auto& prog = c.S("a" + std::to_string(i));
            for (long k = 0; k < n; k++) {
                long kind = *rc::gen::weightedOneOf<long>({{7, rc::gen::just<long>(OP_RW_SECTION)}, {use_q ? 2 : 0, rc::gen::just<long>(OP_TRY_SECTION)}, {1, rc::gen::just<long>(OP_YIELD)}, {1, rc::gen::just<long>(OP_SLEEP)}, {2, rc::gen::just<long>(OP_INT)}});
                if (kind == OP_RW_SECTION || kind == OP_TRY_SECTION) {
                    long tmo = kind == OP_TRY_SECTION ? -1 : *rc::gen::weightedOneOf<long>({{4, rc::gen::just<long>(-1)}, {1, rc::gen::just<long>(0)}, {3, vf::range(1, 300)}, {2, vf::range(301, 4000)}});
                    prog.push_back({kind, *rc::gen::weightedOneOf<long>({{3, rc::gen::just<long>(0)}, {2, rc::gen::just<long>(1)}}), tmo, *vf::range(0, 2), *gen_duration()});
                } else if (kind == OP_SLEEP) prog.push_back({kind, *gen_duration()});
                else if (kind == OP_INT) prog.push_back({kind, *vf::range(0, na - 1), *vf::range(0, 2)});
                else prog.push_back({kind});
            }
        }
        c.S("sched") = *gen_schedule(40);
        return c;
    });
}

std::string opname(const std::vector<long>& r) {
    std::ostringstream o;
    if (r[0] == OP_RW_SECTION) o << "{lock(" << (r[1] ? "W" : "R") << ", " << (r[2] < 0 ? std::string("inf") : std::to_string(r[2])) << "); body" << r[3] << "(" << r[4] << "); unlock}";
    else if (r[0] == OP_TRY_SECTION) o << "{try_lock(" << (r[1] ? "W" : "R") << "); body" << r[3] << "(" << r[4] << "); unlock}";
    else o << "op" << r[0];
    return o.str();
}
}  // namespace

int main(int argc, char** argv) {
    vf::Harness h;
    h.prop = "C06";
    h.gen = gen_case;
    h.run = run_case;
    h.desc = [](const Case& c) { return describe_common(c, opname); };
    h.fork_per_case = true;
    h.persistent_child = true;
    return vf::pbt_main(argc, argv, h);
}
