// C08 (part "owned") — WorkPool with its own OS threads and real blocking: generated pool shapes and submitter mixes,
// uncontrolled interleavings.  Same oracle as the controlled part; a case that does not complete within 30 s of wall
// time (normal: milliseconds) is reported as missing completions (the check replays it 3 times before it counts).
#include "pbt.h"
#include <photon/photon.h>
#include <photon/thread/thread11.h>
#include <photon/thread/workerpool.h>
#include <photon/common/alog.h>
#include <atomic>
#include <deque>
#include <mutex>
#include <set>
#include <thread>
#include <sstream>

using vf::Case;
using vf::Outcome;

namespace {

enum { OP_CALL = 10, OP_ASYNC = 11, OP_PAUSE = 1 };
// rows p<i> (photon submitter i) / o<k> (OS-thread submitter k): [op, body kind (0 none, 1 yield, 2 sleep us), arg, ctx (0 default, 1 Auto)]

struct Task {
    int id; long body, arg; bool is_async;
    std::atomic<int> runs{0}, deleted{0};
    std::atomic<bool> finished{false};
    Task(int id, long b, long a, bool as) : id(id), body(b), arg(a), is_async(as) {}
};

struct H {
    photon::WorkPool* pool = nullptr;
    std::mutex mu;
    std::deque<Task> tasks;
    std::string first_violation;
    std::atomic<bool> destroyed{false}, destroying{false};
    std::atomic<int> running_now{0};
    std::atomic<bool> overlapped{false}, ran_during_destruction{false};
    std::set<std::thread::id> worker_threads;       // OS threads tasks ran on
    std::atomic<long> progress{0};                  // tasks started/finished, submissions returned
    std::thread::id creator;

    void violation(const std::string& m) { std::lock_guard<std::mutex> g(mu); if (first_violation.empty()) first_violation = m; }
    Task* new_task(const std::vector<long>& r) { std::lock_guard<std::mutex> g(mu); tasks.emplace_back((int)tasks.size(), r.at(1), r.at(2), r[0] == OP_ASYNC); return &tasks.back(); }
    void execute(Task* t) {
        if (destroyed) violation("task " + std::to_string(t->id) + " started after the pool's destructor returned");
        progress++;
        int n = ++t->runs;
        if (n > 1) violation("task " + std::to_string(t->id) + " executed " + std::to_string(n) + " times");
        if (std::this_thread::get_id() == creator) violation("task " + std::to_string(t->id) + " ran on the submitting vCPU, not on a pool worker");
        { std::lock_guard<std::mutex> g(mu); worker_threads.insert(std::this_thread::get_id()); }
        if (++running_now >= 2) overlapped = true;
        if (destroying) ran_during_destruction = true;
        if (t->body == 1) { for (long i = 0; i < 1 + t->arg % 3; i++) photon::thread_yield(); }
        else if (t->body == 2) photon::thread_usleep((uint64_t)t->arg);
        --running_now;
        if (destroyed) violation("task " + std::to_string(t->id) + " was still running after the pool's destructor returned");
        t->finished = true; progress++;
    }
    template <typename Ctx> void do_call(Task* t) {
        pool->call<Ctx>([this, t]() { execute(t); });
        if (!t->finished) violation("call() returned before its task " + std::to_string(t->id) + " finished (runs=" + std::to_string(t->runs.load()) + ")");
        else if (t->runs != 1) violation("call() returned with its task " + std::to_string(t->id) + " executed " + std::to_string(t->runs.load()) + " times");
    }
    void submit(bool os, const std::vector<long>& r);
};

H* g_h = nullptr;

struct AsyncObj {
    Task* t; uint32_t magic = 0xA51C0B1E;
    explicit AsyncObj(Task* t) : t(t) {}
    void operator()() { if (magic != 0xA51C0B1E) g_h->violation("async task object used after its deletion"); g_h->execute(t); }
    ~AsyncObj() {
        if (magic != 0xA51C0B1E) g_h->violation("async task object deleted twice");
        magic = 0;
        if (++t->deleted > 1) g_h->violation("async task object " + std::to_string(t->id) + " deleted twice");
        if (!t->finished) g_h->violation("async task object " + std::to_string(t->id) + " deleted before its task finished");
    }
};

void H::submit(bool os, const std::vector<long>& r) {
    if (r[0] == OP_PAUSE) { if (os) std::this_thread::sleep_for(std::chrono::microseconds(r.at(1))); else photon::thread_usleep((uint64_t)r.at(1)); return; }
    progress++;
    Task* t = new_task(r);
    if (r[0] == OP_ASYNC) { pool->async_call(new AsyncObj(t)); return; }
    bool autoctx = r.at(3) != 0;
    if (os) { if (autoctx) do_call<photon::AutoContext>(t); else do_call<photon::StdContext>(t); }
    else { if (autoctx) do_call<photon::AutoContext>(t); else do_call<photon::PhotonContext>(t); }
}

Outcome run_case(const Case& c) {
    static bool inited = false;
    if (!inited) {
        set_log_output_level(ALOG_AUDIT + 1); set_log_output(log_output_null);
        if (photon::init(photon::INIT_EVENT_EPOLL, photon::INIT_IO_NONE) != 0) { Outcome o; o.status = Outcome::INCONCLUSIVE; o.msg = "photon::init failed"; return o; }
        inited = true;
    }
    auto T0 = std::chrono::steady_clock::now();
    auto tick = [&](const char* w) { if (getenv("C08_TIME")) fprintf(stderr, "[t] %s %ld us\n", w, (long)std::chrono::duration_cast<std::chrono::microseconds>(std::chrono::steady_clock::now() - T0).count()); };
    H h; g_h = &h;
    h.creator = std::this_thread::get_id();
    long nvcpu = c.cfg.at(0), mode = c.cfg.at(1), ring = c.cfg.at(2), nph = c.cfg.at(3), nos = c.cfg.at(4);
    bool destroy_early = c.cfg.at(5) != 0, destroy_from_std = c.cfg.at(6) != 0;
    // watchdog: the whole case normally takes milliseconds
    std::atomic<bool> case_done{false};
    std::thread watchdog([&]() {
        // nothing started, finished or was submitted for 30 s (load makes a case slow, it does not stop it)
        long last = -1; int still = 0;
        while (!case_done && still < 3000) { std::this_thread::sleep_for(std::chrono::milliseconds(10)); long p = h.progress.load(); if (p != last) { last = p; still = 0; } else still++; }
        if (case_done) return;
        std::ostringstream o; int lost = 0;
        { std::lock_guard<std::mutex> g(h.mu); for (auto& t : h.tasks) if (!t.finished) { lost++; o << " task" << t.id << (t.is_async ? "(async" : "(call") << ",runs=" << t.runs.load() << ")"; } }
        Outcome out = Outcome::violation("no progress for 30 s: " + std::to_string(lost) + " accepted task(s) never finished:" + o.str() +
                                         (h.destroying ? " [inside ~WorkPool]" : "") + (h.first_violation.empty() ? "" : "; earlier: " + h.first_violation));
        vf::finish_now(out);
    });
    h.pool = new photon::WorkPool((size_t)nvcpu, photon::INIT_EVENT_EPOLL, photon::INIT_IO_NONE, (int)mode, (size_t)ring);
    tick("pool constructed");
    if (h.pool->get_vcpu_num() != nvcpu) h.violation("get_vcpu_num() = " + std::to_string(h.pool->get_vcpu_num()) + " after constructing a pool of " + std::to_string(nvcpu));
    std::vector<photon::join_handle*> jh;
    for (long i = 0; i < nph; i++)
        jh.push_back(photon::thread_enable_join(photon::thread_create11([&h, &c, i]() { for (auto& r : c.S("p" + std::to_string(i))) if (!r.empty()) h.submit(false, r); })));
    std::vector<std::thread> os;
    for (long k = 0; k < nos; k++) os.emplace_back([&h, &c, k]() { for (auto& r : c.S("o" + std::to_string(k))) if (!r.empty()) h.submit(true, r); });
    for (auto j : jh) photon::thread_join(j);
    for (auto& t : os) t.join();
    tick("submitters joined");
    size_t ntasks = h.tasks.size();
    int unfinished = 0;
    if (!destroy_early) { for (;;) { bool all = true; for (auto& t : h.tasks) if (!t.finished) all = false; if (all) break; photon::thread_usleep(200); } }
    else for (auto& t : h.tasks) if (!t.finished) unfinished++;
    tick("tasks done");
    h.destroying = true;
    if (destroy_from_std) { std::thread d([&]() { delete h.pool; }); d.join(); }
    else delete h.pool;
    h.destroyed = true;
    tick("pool destroyed");
    for (auto& t : h.tasks) {
        if (t.runs != 1) h.violation("after ~WorkPool: task " + std::to_string(t.id) + " executed " + std::to_string(t.runs.load()) + " times");
        else if (!t.finished) h.violation("after ~WorkPool: task " + std::to_string(t.id) + " has not finished");
        if (t.is_async && t.deleted != 1) h.violation("after ~WorkPool: async task object " + std::to_string(t.id) + " deleted " + std::to_string(t.deleted.load()) + " times");
    }
    if ((long)h.worker_threads.size() > nvcpu) h.violation("tasks ran on " + std::to_string(h.worker_threads.size()) + " OS threads, the pool has " + std::to_string(nvcpu));
    case_done = true;
    watchdog.join();
    if (!h.first_violation.empty()) return Outcome::violation(h.first_violation);
    Outcome out;
    out.nontrivial = h.overlapped || unfinished > 0 || (long)ntasks > ring;
    if (h.overlapped) out.label("tasks_overlapped");
    if (unfinished) out.label("destroyed_with_unfinished_tasks");
    if (h.ran_during_destruction) out.label("task_ran_during_destruction");
    if ((long)ntasks > ring) out.label("burst_larger_than_ring");
    if (destroy_from_std) out.label("destroyed_from_plain_os_thread");
    out.label("mode:" + std::string(mode < 0 ? "inline" : mode == 0 ? "thread_per_task" : "pooled"));
    out.label("workers:" + std::to_string(nvcpu));
    if (nos) out.label("os_thread_submitters");
    if (nph) out.label("photon_submitters");
    return out;
}

rc::Gen<Case> gen_case(const vf::Options&) {
    return rc::gen::exec([]() {
        Case c;
        long nvcpu = *rc::gen::weightedOneOf<long>({{3, rc::gen::just<long>(1)}, {3, rc::gen::just<long>(2)}, {2, rc::gen::just<long>(3)}, {1, vf::range(4, 6)}});
        long mode = *vf::oneof<long>({-1, 0, 3});
        long ring = *rc::gen::weightedOneOf<long>({{3, rc::gen::just<long>(1)}, {3, rc::gen::just<long>(2)}, {2, rc::gen::just<long>(8)}, {1, rc::gen::just<long>(1024)}});
        long nph = *vf::range(0, 3), nos = *vf::range(nph == 0 ? 1 : 0, 3);
        c.cfg = {nvcpu, mode, ring, nph, nos, *vf::range(0, 1), *vf::range(0, 2) == 0};
        auto prog = [&](const std::string& name) {
            long n = *vf::range(1, 8);
            for (long k = 0; k < n; k++) {
                long kind = *rc::gen::weightedOneOf<long>({{5, rc::gen::just<long>(OP_CALL)}, {5, rc::gen::just<long>(OP_ASYNC)}, {1, rc::gen::just<long>(OP_PAUSE)}});
                if (kind == OP_PAUSE) { c.S(name).push_back({kind, *vf::range(1, 500)}); continue; }
                long body = *rc::gen::weightedOneOf<long>({{3, rc::gen::just<long>(0)}, {3, rc::gen::just<long>(1)}, {3, rc::gen::just<long>(2)}});
                c.S(name).push_back({kind, body, body == 2 ? *rc::gen::weightedOneOf<long>({{3, vf::range(1, 100)}, {1, vf::range(101, 3000)}}) : *vf::range(0, 2), *vf::range(0, 1)});
            }
        };
        for (long i = 0; i < nph; i++) prog("p" + std::to_string(i));
        for (long k = 0; k < nos; k++) prog("o" + std::to_string(k));
        return c;
    });
}

std::string describe(const Case& c) {
    std::ostringstream o;
    o << "WorkPool(vcpus=" << c.cfg[0] << ", thread_mode=" << c.cfg[1] << ", ring_size=" << c.cfg[2] << "); destroy " << (c.cfg[5] ? "as soon as every submitter returned" : "after every task finished")
      << (c.cfg[6] ? " from a plain OS thread" : " from the creating photon thread") << "\n";
    static const char* bk[] = {"none", "yield", "sleep"};
    auto row = [&](const std::string& n, const char* what) {
        o << " " << what << ":";
        for (auto& r : c.S(n)) { if (r.empty()) continue; if (r[0] == OP_PAUSE) o << " pause(" << r[1] << ");"; else o << " " << (r[0] == OP_ASYNC ? "async_call" : "call") << (r[0] == OP_CALL && r[3] ? "<Auto>" : "") << "(" << bk[r[1] % 3] << " " << r[2] << ");"; }
        o << "\n";
    };
    for (long i = 0; i < c.cfg[3]; i++) row("p" + std::to_string(i), ("photon" + std::to_string(i)).c_str());
    for (long k = 0; k < c.cfg[4]; k++) row("o" + std::to_string(k), ("osthread" + std::to_string(k)).c_str());
    return o.str();
}
}  // namespace

int main(int argc, char** argv) {
    vf::Harness h;
    h.prop = "C08";
    h.gen = gen_case;
    h.run = run_case;
    h.desc = describe;
    h.fork_per_case = true;
    h.persistent_child = true;
    return vf::pbt_main(argc, argv, h);
}
