// C09 (part "parallel") — go-style channel on real vCPUs: producers and consumers on 2..6 OS threads with generated
// mixes of timed / untimed / try operations.  Timeouts fire asynchronously with respect to the other vCPUs here (the
// controlled scheduler can only let them fire at schedule points).  Logical oracle: every value whose send returned
// true is received exactly once, nothing else is received, a sender's values arrive in its order at each consumer,
// a value whose timed send() returned false on the open channel is never received; the channel is closed only after
// every producer finished and consumers then drain it.  The only wall-clock element: "no value got through for 30 s"
// (producers and a blocking consumer keep trying, or are blocked, and never meet).
#include "pbt.h"
#include <photon/photon.h>
#include <photon/thread/thread.h>
#include <photon/thread/thread11.h>
#include <photon/thread/go.h>
#include <photon/common/alog.h>
#include <atomic>
#include <mutex>
#include <sstream>
#include <thread>
#include <map>

using vf::Case;
using vf::Outcome;

namespace {

// cfg: [n vcpus, capacity, sends per producer]
// role : one row per photon thread: [vcpu, kind (0 producer, 1 consumer), op style (0 untimed, 1 timed, 2 try, 3 mixed), timeout us, pause between ops (0 none, 1 yield, 2 burn), arg]

struct Shared {
    std::mutex mu; std::string first_violation;
    std::atomic<long> progress{0}, sent_ok{0}, sent_failed{0}, received{0}, recv_timeouts{0};
    std::atomic<int> producers_left{0};
    std::map<long, int> sent, got;          // value -> count (under mu)
    std::map<long, int> refused;            // values whose timed send()/try_send() returned false
    void violation(const std::string& m) { std::lock_guard<std::mutex> g(mu); if (first_violation.empty()) first_violation = m; }
};

void burn(long n) { volatile long x = 0; for (long i = 0; i < n * 20; i++) x += i; }

Outcome run_case(const Case& c) {
    static bool once = (set_log_output_level(ALOG_AUDIT + 1), set_log_output(log_output_null), true);
    (void)once;
    long nv = std::max<long>(1, c.cfg.at(0)), cap = c.cfg.at(1), per = c.cfg.at(2);
    Shared S;
    photon::channel<long> ch((size_t)cap);
    auto& roles = c.S("role");
    int nprod = 0, ncons = 0;
    for (auto& r : roles) if (r.at(1) == 0) nprod++; else ncons++;
    if (!nprod || !ncons) { Outcome o; o.status = Outcome::INCONCLUSIVE; o.msg = "no producer or no consumer"; return o; }
    S.producers_left = nprod;
    std::atomic<bool> case_done{false};
    std::thread watchdog([&]() {
        long last = -1; int still = 0;
        while (!case_done && still < 3000) { std::this_thread::sleep_for(std::chrono::milliseconds(10)); long p = S.progress.load(); if (p != last) { last = p; still = 0; } else still++; }
        if (case_done) return;
        vf::finish_now(Outcome::violation("no value got through for 30 s although producers and at least one blocking consumer kept trying: " + std::to_string(S.sent_ok.load()) + " sent, " + std::to_string(S.received.load()) + " received, " +
                                          std::to_string(S.producers_left.load()) + " producer(s) still running" + (S.first_violation.empty() ? "" : "; earlier: " + S.first_violation)));
    });
    std::atomic<int> ready{0};
    std::vector<std::thread> ths;
    for (long v = 0; v < nv; v++) ths.emplace_back([&, v]() {
        if (photon::init(photon::INIT_EVENT_EPOLL, photon::INIT_IO_NONE) != 0) { S.violation("photon::init failed"); ready++; return; }
        ready++;
        while (ready.load() < nv) std::this_thread::yield();
        std::vector<photon::join_handle*> jh;
        for (size_t i = 0; i < roles.size(); i++) {
            if (roles[i].at(0) % nv != v) continue;
            const std::vector<long>* r = &roles[i]; long id = (long)i;
            jh.push_back(photon::thread_enable_join(photon::thread_create11([&, r, id]() {
                long style = r->at(2), tmo = r->at(3), pause = r->at(4), parg = r->at(5);
                auto between = [&]() { if (pause == 1) photon::thread_yield(); else if (pause == 2) burn(parg); };
                if (r->at(1) == 0) {
                    for (long k = 1; k <= per && S.first_violation.empty(); k++) {
                        long val = (id << 48) | k;                 // producer | attempt (bits 24..47) | sequence (bits 0..23)
                        long st = style == 3 ? (k + id) % 3 : style;
                        bool ok;
                        for (;;) {      // a refused value is offered again (as a new attempt) until it gets through: nothing is dropped by design
                            if (st == 2) ok = ch.try_send(val); else ok = ch.send(val, st == 1 ? photon::Timeout((uint64_t)tmo) : photon::Timeout());
                            if (ok) { S.progress++; break; }
                            S.sent_failed++;
                            { std::lock_guard<std::mutex> g(S.mu); if (S.got.count(val)) { /* checked below */ } S.refused[val]++; }
                            if (st == 0) { S.violation("untimed send() returned false on a channel nobody closed"); break; }
                            // re-offering the same value would make "refused but delivered" undetectable: use a fresh value
                            val += (1L << 24);
                            if (st == 2) photon::thread_yield();
                        }
                        if (ok) { S.sent_ok++; std::lock_guard<std::mutex> g(S.mu); S.sent[val]++; }
                        between();
                    }
                    S.producers_left--;
                } else {
                    std::map<long, long> last_seq;       // producer -> last sequence seen by this consumer
                    int idle_after_end = 0; long opno = 0;
                    for (;;) {
                        if (!S.first_violation.empty()) break;
                        long val = 0; long st = style == 3 ? (++opno + id) % 3 : style;     // mixed: cycles with the consumer's own operation count
                        bool ok;
                        if (st == 2) { ok = ch.try_recv(val); if (!ok) photon::thread_yield(); }
                        else ok = ch.recv(val, st == 1 ? photon::Timeout((uint64_t)tmo) : photon::Timeout((uint64_t)20000));   // "untimed" consumers poll every 20 ms so that they can notice the end
                        if (!ok) {
                            S.recv_timeouts++;
                            if (S.producers_left.load() == 0) {
                                if (S.received.load() >= S.sent_ok.load()) break;      // everything sent has been received by somebody
                                if (++idle_after_end > 100) break;                      // ... or is not going to arrive any more (reported below as never received)
                            }
                            continue;
                        }
                        S.received++; S.progress++;
                        long p = val >> 48, seq = val & 0xffffff;
                        { std::lock_guard<std::mutex> g(S.mu); if (++S.got[val] > 1) S.violation("value " + std::to_string(val) + " (producer " + std::to_string(p) + ", #" + std::to_string(seq) + ") was received twice"); }
                        auto it = last_seq.find(p);
                        if (it != last_seq.end() && it->second >= seq) S.violation("a consumer received #" + std::to_string(seq) + " of producer " + std::to_string(p) + " after #" + std::to_string(it->second));
                        last_seq[p] = seq;
                        between();
                    }
                }
            })));
        }
        for (auto j : jh) photon::thread_join(j);
        photon::fini();
    });
    for (auto& t : ths) t.join();
    case_done = true; watchdog.join();
    if (S.first_violation.empty()) {
        for (auto& kv : S.got) {
            if (!S.sent.count(kv.first)) {
                if (S.refused.count(kv.first)) S.violation("value " + std::to_string(kv.first) + " was received although its send()/try_send() returned false on the open channel");
                else S.violation("value " + std::to_string(kv.first) + " was received but never sent");
                break;
            }
        }
        for (auto& kv : S.sent) if (!S.got.count(kv.first)) { S.violation("value " + std::to_string(kv.first) + " (send returned true) was never received although consumers kept receiving until every producer had finished"); break; }
    }
    if (!S.first_violation.empty()) return Outcome::violation(S.first_violation);
    Outcome out;
    out.nontrivial = S.sent_failed.load() > 0 || S.recv_timeouts.load() > 0;
    if (S.sent_failed.load()) out.label("send_refused(timeout/try)");
    if (S.recv_timeouts.load()) out.label("recv_timed_out");
    out.label("capacity:" + std::to_string(cap));
    out.label("vcpus:" + std::to_string(nv));
    out.label("producers:" + std::to_string(nprod) + " consumers:" + std::to_string(ncons));
    return out;
}

rc::Gen<Case> gen_case(const vf::Options&) {
    return rc::gen::exec([]() {
        Case c;
        long nv = *rc::gen::weightedOneOf<long>({{3, vf::range(2, 3)}, {2, vf::range(4, 6)}});
        long cap = *vf::oneof<long>({0, 0, 1, 2, 4});
        c.cfg = {nv, cap, *vf::oneof<long>({10, 60, 300})};
        long nprod = *vf::range(1, 4), ncons = *vf::range(1, 4);
        for (long i = 0; i < nprod + ncons; i++) {
            long style = *rc::gen::weightedOneOf<long>({{2, rc::gen::just<long>(0)}, {3, rc::gen::just<long>(1)}, {1, rc::gen::just<long>(2)}, {2, rc::gen::just<long>(3)}});
            if (i == nprod && style == 2) style = 1;      // at least one consumer really waits: try_send/try_recv alone never meet on an unbuffered channel
            c.S("role").push_back({*vf::range(0, nv - 1), i < nprod ? 0L : 1L, style, *rc::gen::weightedOneOf<long>({{2, vf::range(1, 30)}, {3, vf::range(31, 400)}, {1, vf::range(401, 3000)}}),
                                   *rc::gen::weightedOneOf<long>({{3, rc::gen::just<long>(0)}, {2, rc::gen::just<long>(1)}, {2, rc::gen::just<long>(2)}}), *vf::range(1, 60)});
        }
        return c;
    });
}

std::string describe(const Case& c) {
    std::ostringstream o;
    o << "channel capacity=" << c.cfg[1] << " vcpus(os threads)=" << c.cfg[0] << " values per producer=" << c.cfg[2] << "\n";
    static const char* st[] = {"untimed", "timed", "try", "mixed"};
    for (auto& r : c.S("role")) o << " " << (r[1] ? "consumer" : "producer") << "@vcpu" << r[0] % c.cfg[0] << " " << st[r[2] % 4] << " timeout=" << r[3] << "us pause=" << r[4] << "(" << r[5] << ")\n";
    return o.str();
}
}  // namespace

int main(int argc, char** argv) {
    vf::Harness h;
    h.prop = "C09";
    h.gen = gen_case;
    h.run = run_case;
    h.desc = describe;
    h.fork_per_case = true;
    h.persistent_child = true;
    return vf::pbt_main(argc, argv, h);
}
