// C18 — RangeLock: held ranges never overlap; waiters proceed when the conflict is gone.
#include "lab_common.h"
#include <photon/common/range-lock.h>

using namespace labc;

namespace {

enum { OP_LOCK_H = 10, OP_TLW = 11, OP_TLW2 = 12 };

struct Held { int actor; uint64_t off, len; };

struct H {
    Common C;
    RangeLock rl;
    std::vector<Held> held;
    std::set<std::string> labels;
    bool nt = false;
    bool excl_zero_unlock_range = false;

    static uint64_t endof(uint64_t o, uint64_t l) { uint64_t e = o + l; return e < o ? UINT64_MAX : e; }
    static uint64_t dec_off(long code) { return code >= 1000 ? (UINT64_MAX - 40) + (uint64_t)(code - 1000) : (uint64_t)code; }
    static uint64_t dec_len(long code) { return code >= 1000 ? UINT64_MAX - (uint64_t)(code - 1000) : (uint64_t)code; }

    void acquire_record(int id, uint64_t o, uint64_t l, const char* how) {
        if (l != 0)
            for (auto& h : held) {
                if (h.len == 0) continue;
                if (o < endof(h.off, h.len) && h.off < endof(o, l)) {
                    std::ostringstream s; s << "actor" << id << " acquired [" << o << ", +" << l << ") via " << how << " while actor" << h.actor << " holds [" << h.off << ", +" << h.len << ")";
                    C.L.ctl.violation(s.str());
                }
            }
        held.push_back({id, o, l});
    }
    void release_record(int id) { for (size_t i = 0; i < held.size(); i++) if (held[i].actor == id) { held.erase(held.begin() + i); return; } }
    bool has_neighbour(int id, uint64_t o, uint64_t l) {
        for (auto& h : held) if (h.actor != id && h.len && (endof(h.off, h.len) <= o || h.off >= endof(o, l))) return true;
        return false;
    }

    void run_op(int id, const std::vector<long>& r) {
        auto& ctl = C.L.ctl;
        uint64_t off = dec_off(r.at(1)), len = dec_len(r.at(2));
        long body = r.at(3), barg = r.at(4);
        long adj = r.at(5);                  // 0: none, else adjust to (r6, r7) while holding (handle variants)
        bool waited = false;
        RangeLock::LockHandle* h = nullptr;
        C.st[id].phase = r[0] == OP_LOCK_H ? "lock" : r[0] == OP_TLW ? "try_lock_wait loop" : "try_lock_wait2 loop";
        C.st[id].phase_arg = (long)off;
        if (r[0] == OP_LOCK_H) {
            bool conflict = false;
            for (auto& x : held) if (x.len && len && off < endof(x.off, x.len) && x.off < endof(off, len)) conflict = true;
            h = rl.lock(off, len);
            if (!h) ctl.violation("lock() returned a null handle");
            waited = conflict;
        } else if (r[0] == OP_TLW) {
            for (int tries = 0;; tries++) {
                uint64_t o = off, l = len;
                int ret = rl.try_lock_wait(o, l);
                if (ret == 0) break;
                waited = true;
                // the reported conflicting range must intersect the request
                if (!(o >= off || endof(o, l) > off)) ctl.violation("try_lock_wait reported a conflict outside the request");
                if (tries > 2000) ctl.inconclusive("try_lock_wait retried 2000 times");
            }
        } else {
            for (int tries = 0; !(h = rl.try_lock_wait2(off, len)); tries++) { waited = true; if (tries > 2000) ctl.inconclusive("try_lock_wait2 retried 2000 times"); }
        }
        if (getenv("C18_DEBUG")) fprintf(stderr, "[c18] actor%d acquired [%lu,+%lu) step=%ld\n", id, off, len, ctl.step);
        acquire_record(id, off, len, r[0] == OP_LOCK_H ? "lock" : r[0] == OP_TLW ? "try_lock_wait" : "try_lock_wait2");
        if (waited) { nt = true; labels.insert("parked_on_conflict_then_acquired"); }
        C.st[id].phase = "holding";
        if (body == 1) photon::thread_yield(); else if (body == 2) photon::thread_usleep((uint64_t)barg);
        if (adj && h) {
            uint64_t no = dec_off(r.at(6)), nl = dec_len(r.at(7));
            bool neigh = has_neighbour(id, no, nl);
            // The library changes the range somewhere inside the call while other vCPUs keep running: during the
            // call only the intersection of the old and the new range is certainly held.
            uint64_t io = std::max(off, no), ie = std::min(endof(off, len), endof(no, nl));
            release_record(id);
            if (ie > io) held.push_back({id, io, ie - io});
            int ret = rl.adjust_range(h, no, nl);
            if (getenv("C18_DEBUG")) fprintf(stderr, "[c18] actor%d adjust -> [%lu,+%lu) ret=%d\n", id, no, nl, ret);
            release_record(id);
            if (ret == 0) {
                acquire_record(id, no, nl, "adjust_range");
                off = no; len = nl;
                labels.insert("adjust_ok");
                if (neigh) { nt = true; labels.insert("adjust_with_neighbour"); }
            } else { acquire_record(id, off, len, "adjust_range(refused: keeps the old range)"); labels.insert("adjust_refused"); }
            if (body == 1) photon::thread_yield();
        }
        // still exclusive?
        for (auto& x : held) if (x.actor != id && x.len && len && off < endof(x.off, x.len) && x.off < endof(off, len)) ctl.violation("overlap appeared while holding");
        release_record(id);
        C.st[id].phase = "unlock";
        if (getenv("C18_DEBUG")) fprintf(stderr, "[c18] actor%d unlock [%lu,+%lu) %s\n", id, off, len, h ? "handle" : "range");
        if (h) rl.unlock(h); else rl.unlock(off, len);
    }
};

Outcome run_case(const Case& c) {
    H h;
    h.C.setup(c, [&](int id, const std::vector<long>& r) { h.run_op(id, r); });
    auto& ctl = h.C.L.ctl;
    ctl.on_quiescence = [&]() {
        std::ostringstream o; o << "quiescence with actors parked although every holder releases:" << h.C.blocked_report() << "; held by harness table: " << h.held.size();
        ctl.violation(o.str());
    };
    h.C.L.run();
    Outcome& out = ctl.out;
    out.nontrivial = h.nt;
    for (auto& l : h.labels) out.label(l);
    h.C.L.stats_labels(out);
    return out;
}

rc::Gen<Case> gen_case(const vf::Options& opt) {
    bool no_zero = opt.has("zero_length_ranges");
    return rc::gen::exec([=]() {
        Case c;
        long na = gen_common(c, 2, 5, 0);
        auto gen_off = [] { return rc::gen::weightedOneOf<long>({{8, vf::range(0, 16)}, {2, vf::range(1000, 1039)}}); };
        auto gen_len = [=] { return rc::gen::weightedOneOf<long>({{no_zero ? 0 : 1, rc::gen::just<long>(0)}, {7, vf::range(1, 8)}, {1, vf::range(9, 40)}, {2, vf::range(1000, 1050)}}); };
        for (long i = 0; i < na; i++) {
            long n = *vf::range(1, 4);
            auto& prog = c.S("a" + std::to_string(i));
            for (long k = 0; k < n; k++) {
                long kind = *rc::gen::weightedOneOf<long>({{4, rc::gen::just<long>(OP_LOCK_H)}, {3, rc::gen::just<long>(OP_TLW)}, {3, rc::gen::just<long>(OP_TLW2)}, {1, rc::gen::just<long>(OP_YIELD)}, {1, rc::gen::just<long>(OP_SLEEP)}});
                if (kind >= OP_LOCK_H) {
                    long adj = kind == OP_TLW ? 0 : *vf::range(0, 2) == 0;
                    prog.push_back({kind, *gen_off(), *gen_len(), *vf::range(0, 2), *gen_duration(), adj, *gen_off(), *gen_len()});
                } else if (kind == OP_SLEEP) prog.push_back({kind, *gen_duration()});
                else prog.push_back({kind});
            }
        }
        c.S("sched") = *gen_schedule(40);
        return c;
    });
}

std::string opname(const std::vector<long>& r) {
    std::ostringstream o;
    auto rng = [](long a, long b) { std::ostringstream s; s << "[" << (a >= 1000 ? "2^64-41+" + std::to_string(a - 1000) : std::to_string(a)) << ", +" << (b >= 1000 ? "2^64-1-" + std::to_string(b - 1000) : std::to_string(b)) << ")"; return s.str(); };
    if (r[0] >= OP_LOCK_H && r[0] <= OP_TLW2) {
        o << "{" << (r[0] == OP_LOCK_H ? "lock" : r[0] == OP_TLW ? "try_lock_wait*" : "try_lock_wait2*") << rng(r[1], r[2]) << "; body" << r[3] << "(" << r[4] << ")";
        if (r[5]) o << "; adjust_range" << rng(r[6], r[7]);
        o << "; unlock}";
    } else o << "op" << r[0];
    return o.str();
}
}  // namespace

int main(int argc, char** argv) {
    vf::Harness h;
    h.prop = "C18";
    h.gen = gen_case;
    h.run = run_case;
    h.desc = [](const Case& c) { return describe_common(c, opname); };
    h.fork_per_case = true;
    h.persistent_child = true;     // a child serves cases until one ends abnormally (finish_now), then it is replaced
    return vf::pbt_main(argc, argv, h);
}
