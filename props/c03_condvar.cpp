// C03 — condition variable: release-and-wait is atomic, notifications are not lost.
#include "lab_common.h"

using namespace labc;

namespace {

enum { OP_WAITCV = 10, OP_NOTIFY_ONE = 11, OP_NOTIFY_ALL = 12 };

struct PMutex : public photon::mutex { using photon::mutex::mutex; photon::thread* get_owner() { return owner.load(); } };

struct H {
    Common C;
    bool use_spin = false;
    PMutex mtx{0};                      // retries 0: go straight to the queue (more interleavings per case)
    photon::spinlock spl;
    photon::condition_variable cv;
    int holder = -1;                    // harness view of who holds the user lock
    std::vector<int> waiting;           // flag protected by the user lock
    std::vector<long> wait_instance;    // instance number of the wait in progress
    std::vector<uint64_t> deadline;     // 0: none
    std::vector<long> must_wake;        // wait instance that has been notified for sure (0: none)
    std::vector<int> qstate;            // per actor, for its current wait: 0 in the queue unless timed out, 1 already notified (dequeued), 2 unknown
    long notified_total = 0, waits_ok = 0, instance_counter = 0;
    long unlocked_in_flight = 0, unlocked_epoch = 0;   // notify calls issued without the lock, possibly running on another vCPU right now
    long notify_in_flight = 0;          // upper bound of wake-ups by notify calls that have started but not returned
    std::vector<char> proven;           // per actor: its current wait is certainly in the queue (somebody acquired the user lock after it began to wait,
                                        // and releasing the lock and enqueuing is one step)
    long n1_started = 0, n1_in_flight = 0, nall_started = 0, nall_in_flight = 0;   // notify_one / notify_all calls (any flavour)
    long unlocked_all_in_flight = 0;    // notify_all calls without the lock in progress: whoever waits meanwhile may be dequeued by them
    std::vector<int> unattributed;      // per actor: waits that returned 0 before the notifier that dequeued them had noted it
    std::set<std::string> labels;
    bool nt = false;

    void L_lock(int id) {
        if (use_spin) spl.lock(); else if (mtx.lock() != 0) C.L.ctl.violation("user mutex lock failed");
        if (holder != -1) C.L.ctl.violation("two actors hold the user lock");
        holder = id;
        for (size_t j = 0; j < waiting.size(); j++) if ((int)j != id && waiting[j]) proven[j] = 1;
    }
    void L_unlock(int id) { if (holder != id) C.L.ctl.violation("unlock by non-holder (harness)"); holder = -1; if (use_spin) spl.unlock(); else mtx.unlock(); }
    bool L_held_by_me() { return use_spin ? spl.locked() : mtx.get_owner() == photon::CURRENT; }
    int actor_of(photon::thread* t) { for (int i = 0; i < C.nactors(); i++) if (C.L.actor_th[i] == t) return i; return -1; }
    int vcpu_of_actor(int i) { auto v = photon::get_vcpu(C.L.actor_th[i]); for (int k = 0; k < (int)C.L.vcpus.size(); k++) if (C.L.vcpus[k] == v) return k; return -1; }
    int cur_vcpu() { auto v = photon::get_vcpu(); for (int k = 0; k < (int)C.L.vcpus.size(); k++) if (C.L.vcpus[k] == v) return k; return -1; }

    void run_op(int id, const std::vector<long>& r) {
        auto& ctl = C.L.ctl;
        switch (r[0]) {
        case OP_WAITCV: {
            long tmo = r.at(1);
            L_lock(id);
            long inst = ++instance_counter;
            waiting[id] = 1; wait_instance[id] = inst; qstate[id] = unlocked_all_in_flight > 0 ? 2 : 0; proven[id] = 0;
            if (getenv("C03_DEBUG")) fprintf(stderr, "[c03] t=%lu actor%d wait start inst %ld tmo %ld\n", (unsigned long)ctl.vnow, id, inst, tmo);
            deadline[id] = tmo < 0 ? 0 : photon::now + (uint64_t)std::max<long>(tmo, 0);
            if (tmo == 0) deadline[id] = 1;    // already expired
            C.st[id].phase = "cv.wait"; C.st[id].phase_arg = tmo;
            holder = -1;                         // the wait releases the lock ...
            photon::Timeout to = tmo < 0 ? photon::Timeout() : photon::Timeout((uint64_t)tmo);
            int ret = use_spin ? cv.wait(&spl, to) : cv.wait(&mtx, to);
            int en = errno;
            // ... and always returns with it held again
            if (!L_held_by_me()) ctl.violation("actor" + std::to_string(id) + ": cv.wait returned without holding the lock");
            if (holder != -1) ctl.violation("actor" + std::to_string(id) + ": cv.wait returned while actor" + std::to_string(holder) + " holds the lock");
            holder = id;
            if (getenv("C03_DEBUG")) fprintf(stderr, "[c03] t=%lu actor%d wait returned %d\n", (unsigned long)ctl.vnow, id, ret);
            if (ret == 0 && qstate[id] == 0) unattributed[id]++;      // dequeued by a notifier (without the lock) that has not noted it yet
            waiting[id] = 0; proven[id] = 0;
            if (ret == 0) {
                waits_ok++;
                if (waits_ok > notified_total + notify_in_flight) ctl.violation("actor" + std::to_string(id) + ": cv.wait returned 0 but fewer waiters were notified (" + std::to_string(notified_total) + ") than have returned 0 (" + std::to_string(waits_ok) + ")");
                labels.insert("wait_notified");
            } else {
                if (ret != -1 || en != ETIMEDOUT) ctl.violation("actor" + std::to_string(id) + ": cv.wait returned " + std::to_string(ret) + " errno " + std::to_string(en));
                if (tmo < 0) ctl.violation("actor" + std::to_string(id) + ": untimed cv.wait reported ETIMEDOUT");
                if (tmo > 0 && photon::now < deadline[id]) ctl.violation("actor" + std::to_string(id) + ": cv.wait reported ETIMEDOUT before its deadline");
                if (must_wake[id] == inst) ctl.violation("actor" + std::to_string(id) + ": notified while surely waiting, yet its wait reported ETIMEDOUT");
                labels.insert("wait_timed_out");
            }
            must_wake[id] = 0; wait_instance[id] = 0; deadline[id] = 0;
            L_unlock(id);
            break;
        }
        case OP_NOTIFY_ONE: case OP_NOTIFY_ALL: {
            bool locked = r.at(1) != 0;
            bool all = r[0] == OP_NOTIFY_ALL;
            C.st[id].phase = all ? "notify_all" : "notify_one";
            std::vector<int> sure, maybe, cand;
            long epoch0 = 0; bool unlocked_overlap = false;
            if (!locked) { unlocked_in_flight++; unlocked_epoch++; }
            if (locked) {
                L_lock(id);
                epoch0 = unlocked_epoch; unlocked_overlap = unlocked_in_flight > 0;
                for (int j = 0; j < C.nactors(); j++) if (waiting[j] && qstate[j] != 1) cand.push_back(j);   // 1: an earlier notification already dequeued it
            }
            // classified after the call: a waiter whose deadline is still ahead of the true clock when the
            // notify call has RETURNED cannot have left the queue by timeout before or during the call
            auto classify = [&]() {
                if (unlocked_epoch != epoch0) unlocked_overlap = true;
                for (int j : cand) {
                    if (!unlocked_overlap && qstate[j] == 0 && (deadline[j] == 0 || deadline[j] > ctl.vnow + 2)) sure.push_back(j); else maybe.push_back(j);
                }
            };
            if (!all) {
                // untimed waiters that are certainly queued and not yet dequeued by anybody, at the start of this call
                std::vector<int> settled;
                for (int j = 0; j < C.nactors(); j++) if (waiting[j] && proven[j] && deadline[j] == 0 && qstate[j] == 0) settled.push_back(j);
                long others_before = n1_in_flight, started0 = ++n1_started, nall0 = nall_started; bool all_overlap = nall_in_flight > 0;
                n1_in_flight++;
                notify_in_flight += 1;
                photon::thread* t = cv.notify_one();
                notify_in_flight -= 1;
                n1_in_flight--;
                long competitors = others_before + (n1_started - started0);    // notify_one calls that overlapped this one
                if (nall_started != nall0) all_overlap = true;
                if (!t && !all_overlap && (long)settled.size() > competitors)
                    ctl.violation("notify_one() returned nobody although " + std::to_string(settled.size()) + " untimed waiter(s) were certainly queued when it started (first: actor" + std::to_string(settled[0]) +
                                  ") and only " + std::to_string(competitors) + " other notify_one call(s) overlapped it");
                if (settled.size() >= 2 && competitors >= 1) { nt = true; labels.insert("two_notify_one_calls_raced_over_two_waiters"); }
                classify();
                if (getenv("C03_DEBUG")) { fprintf(stderr, "[c03] t=%lu actor%d notify_one(%s) -> actor%d ; cand:", (unsigned long)ctl.vnow, id, locked ? "locked" : "no lock", t ? actor_of(t) : -1); for (int j : cand) fprintf(stderr, " %d", j); fprintf(stderr, " waiting:"); for (int j = 0; j < C.nactors(); j++) fprintf(stderr, " %d/%d", (int)waiting[j], qstate[j]); fprintf(stderr, "\n"); }
                if (t) notified_total++;
                if (locked) {
                    if (!t && !sure.empty()) ctl.violation("notify_one() returned nobody although actor" + std::to_string(sure[0]) + " released the lock into the wait before this notifier acquired it");
                    if (t) {
                        int j = actor_of(t);
                        bool inW = std::find(sure.begin(), sure.end(), j) != sure.end() || std::find(maybe.begin(), maybe.end(), j) != maybe.end();
                        if (!inW) ctl.violation("notify_one() returned a thread that was not waiting");
                        must_wake[j] = wait_instance[j]; qstate[j] = 1;
                        if (vcpu_of_actor(j) != cur_vcpu()) { nt = true; labels.insert("notified_waiter_on_other_vcpu"); }
                    }
                } else if (t) {
                    int j = actor_of(t);
                    if (j < 0) ctl.violation("notify_one() returned an unknown thread");
                    // the waiter it dequeued may have returned already (and be in its next wait): then the note belongs to that finished wait
                    if (unattributed[j] > 0) unattributed[j]--;
                    else if (waiting[j]) qstate[j] = 1;
                }
            } else {
                notify_in_flight += C.nactors();
                nall_started++; nall_in_flight++;
                if (!locked) { unlocked_all_in_flight++; for (int j = 0; j < C.nactors(); j++) if (waiting[j] && qstate[j] == 0) qstate[j] = 2; }
                int n = cv.notify_all();
                if (!locked) unlocked_all_in_flight--;
                nall_in_flight--;
                notify_in_flight -= C.nactors();
                classify();
                if (n < 0 || n > C.nactors()) ctl.violation("notify_all() returned " + std::to_string(n));
                notified_total += n;
                if (!locked && n > 0) for (int j = 0; j < C.nactors(); j++) { if (waiting[j] && qstate[j] == 0) qstate[j] = 2; unattributed[j] = 0; }
                if (locked) {
                    if (n < (int)sure.size() || n > (int)(sure.size() + maybe.size()))
                        ctl.violation("notify_all() woke " + std::to_string(n) + " waiters; " + std::to_string(sure.size()) + " were surely waiting and " + std::to_string(maybe.size()) + " possibly");
                    for (int j : maybe) qstate[j] = 2;
                    for (int j : sure) { must_wake[j] = wait_instance[j]; qstate[j] = 1; if (vcpu_of_actor(j) != cur_vcpu()) { nt = true; labels.insert("notified_waiter_on_other_vcpu"); } }
                }
            }
            if (locked) {
                if (!maybe.empty()) { nt = true; labels.insert("timeout_and_notify_raced_on_one_waiter"); }
                if (!sure.empty()) labels.insert("notify_found_waiters");
                L_unlock(id);
            } else { labels.insert("notify_without_lock"); unlocked_in_flight--; unlocked_epoch++; }
            break;
        }
        }
    }
};

Outcome run_case(const Case& c) {
    H h;
    h.use_spin = c.cfg.at(5) != 0;
    h.C.setup(c, [&](int id, const std::vector<long>& r) { h.run_op(id, r); });
    int n = h.C.nactors();
    h.waiting.assign(n, 0); h.wait_instance.assign(n, 0); h.deadline.assign(n, 0); h.must_wake.assign(n, 0); h.qstate.assign(n, 0); h.proven.assign(n, 0); h.unattributed.assign(n, 0);
    auto& ctl = h.C.L.ctl;
    ctl.on_quiescence = [&]() {
        for (int j = 0; j < n; j++) {
            if (h.C.st[j].finished) continue;
            if (h.waiting[j] && h.must_wake[j] == h.wait_instance[j] && h.must_wake[j] != 0)
                ctl.violation("lost wake-up: actor" + std::to_string(j) + " was notified but is still blocked in cv.wait at quiescence");
            if (h.waiting[j] && h.deadline[j] != 0)
                ctl.violation("actor" + std::to_string(j) + " still blocked in a timed cv.wait at quiescence");
            if (!h.waiting[j])
                ctl.violation("actor" + std::to_string(j) + " blocked at quiescence outside cv.wait: " + h.C.blocked_report());
        }
        ctl.out.nontrivial = h.nt;
        for (auto& l : h.labels) ctl.out.label(l);
        ctl.out.label("waiters_never_notified_left_blocked");
    };
    h.C.L.run();
    if (h.waits_ok != h.notified_total) {
        // every notified waiter must have returned 0 by the time all actors finished
        return Outcome::violation("notified " + std::to_string(h.notified_total) + " waiters in total but " + std::to_string(h.waits_ok) + " waits returned 0");
    }
    Outcome& out = ctl.out;
    out.nontrivial = h.nt;
    for (auto& l : h.labels) out.label(l);
    out.label(h.use_spin ? "lock:spinlock" : "lock:mutex");
    h.C.L.stats_labels(out);
    return out;
}

rc::Gen<Case> gen_case(const vf::Options&) {
    return rc::gen::exec([]() {
        Case c;
        long na = gen_common(c, 2, 5, 0);
        c.cfg.push_back(*vf::range(0, 1));
        if (c.cfg[0] >= 2 && *vf::range(0, 3) == 0) {
            // family "notifiers race": 2-3 untimed waiters (plus, sometimes, one about to time out at the head), then two
            // notify_one calls from different vCPUs at nearly the same step, under a dense schedule
            c.S("actor").clear();
            long nv = c.cfg[0], nw = *vf::range(2, 3);
            for (long i = 0; i < nw + 2; i++) c.S("actor").push_back({i < nw ? *vf::range(0, nv - 1) : (i - nw) % nv, 0});
            long head_tmo = *rc::gen::weightedOneOf<long>({{2, rc::gen::just<long>(-1)}, {2, vf::range(150, 700)}});
            for (long i = 0; i < nw; i++) {
                auto& prog = c.S("a" + std::to_string(i));
                if (i) prog.push_back({OP_SLEEP, i * 20});
                prog.push_back({OP_WAITCV, i == 0 ? head_tmo : -1});
            }
            long t0 = *vf::range(100, 700);
            for (long k = 0; k < 2; k++) {
                auto& prog = c.S("a" + std::to_string(nw + k));
                prog.push_back({OP_SLEEP, t0 + *vf::range(0, 6)});
                prog.push_back({OP_NOTIFY_ONE, *rc::gen::weightedOneOf<long>({{1, rc::gen::just<long>(1)}, {2, rc::gen::just<long>(0)}})});
                if (*vf::range(0, 1)) prog.push_back({OP_NOTIFY_ONE, *vf::range(0, 1)});
                prog.push_back({OP_SLEEP, 3000});
                prog.push_back({OP_NOTIFY_ALL, 1});          // nobody stays behind
            }
            c.S("sched") = *gen_schedule(120);
            return c;
        }
        for (long i = 0; i < na; i++) {
            long n = *vf::range(1, 4);
            auto& prog = c.S("a" + std::to_string(i));
            for (long k = 0; k < n; k++) {
                long kind = *rc::gen::weightedOneOf<long>({{5, rc::gen::just<long>(OP_WAITCV)}, {3, rc::gen::just<long>(OP_NOTIFY_ONE)}, {2, rc::gen::just<long>(OP_NOTIFY_ALL)}, {1, rc::gen::just<long>(OP_YIELD)}, {2, rc::gen::just<long>(OP_SLEEP)}});
                if (kind == OP_WAITCV) prog.push_back({kind, *rc::gen::weightedOneOf<long>({{3, rc::gen::just<long>(-1)}, {1, rc::gen::just<long>(0)}, {3, vf::range(1, 200)}, {3, vf::range(201, 4000)}})});
                else if (kind == OP_NOTIFY_ONE || kind == OP_NOTIFY_ALL) prog.push_back({kind, *rc::gen::weightedOneOf<long>({{4, rc::gen::just<long>(1)}, {1, rc::gen::just<long>(0)}})});
                else if (kind == OP_SLEEP) prog.push_back({kind, *gen_duration()});
                else prog.push_back({kind});
            }
        }
        c.S("sched") = *gen_schedule(40);
        return c;
    });
}

std::string opname(const std::vector<long>& r) {
    std::ostringstream o;
    switch (r[0]) {
    case OP_WAITCV: o << "{L.lock; cv.wait(L, " << (r[1] < 0 ? std::string("inf") : std::to_string(r[1])) << "); L.unlock}"; break;
    case OP_NOTIFY_ONE: o << (r[1] ? "{L.lock; notify_one; L.unlock}" : "notify_one(no lock)"); break;
    case OP_NOTIFY_ALL: o << (r[1] ? "{L.lock; notify_all; L.unlock}" : "notify_all(no lock)"); break;
    default: o << "op" << r[0];
    }
    return o.str();
}
}  // namespace

int main(int argc, char** argv) {
    vf::Harness h;
    h.prop = "C03";
    h.gen = gen_case;
    h.run = run_case;
    h.desc = [](const Case& c) { return describe_common(c, opname); };
    h.fork_per_case = true;
    h.persistent_child = true;     // a child serves cases until one ends abnormally (finish_now), then it is replaced
    return vf::pbt_main(argc, argv, h);
}
