// C20 — sub-filesystem path confinement.
// Oracle: lexical model of the path (split on '/', '.' ignored, '..' pops): a path that pops below
// the base must be rejected (the underlay gets a null path); any other path must be forwarded as
// base(with one trailing slash) + input, unchanged, unless base+input exceeds the length limit.
#include "pbt.h"
#include <photon/fs/filesystem.h>
#include <photon/fs/subfs.h>
#include <photon/common/alog.h>
#include <sys/stat.h>
#include <sys/statfs.h>
#include <sys/statvfs.h>
#include <utime.h>
#include <climits>

using namespace vf;
using namespace photon::fs;

struct Rec { std::string op; bool null1 = false, null2 = false, has2 = false; std::string p1, p2; };

struct RecordingFS : public IFileSystem, public IFileSystemXAttr {
    std::vector<Rec> log;
    void rec(const char* op, const char* p) { Rec r; r.op = op; if (p) r.p1 = p; else r.null1 = true; log.push_back(r); }
    void rec2(const char* op, const char* a, const char* b) {
        Rec r; r.op = op; r.has2 = true;
        if (a) r.p1 = a; else r.null1 = true;
        if (b) r.p2 = b; else r.null2 = true;
        log.push_back(r);
    }
    IFile* open(const char* p, int) override { rec("open", p); return nullptr; }
    IFile* open(const char* p, int, mode_t) override { rec("open3", p); return nullptr; }
    IFile* creat(const char* p, mode_t) override { rec("creat", p); return nullptr; }
    int mkdir(const char* p, mode_t) override { rec("mkdir", p); return -1; }
    int rmdir(const char* p) override { rec("rmdir", p); return -1; }
    int symlink(const char* o, const char* n) override { rec2("symlink", o, n); return -1; }
    ssize_t readlink(const char* p, char*, size_t) override { rec("readlink", p); return -1; }
    int link(const char* o, const char* n) override { rec2("link", o, n); return -1; }
    int rename(const char* o, const char* n) override { rec2("rename", o, n); return -1; }
    int unlink(const char* p) override { rec("unlink", p); return -1; }
    int chmod(const char* p, mode_t) override { rec("chmod", p); return -1; }
    int chown(const char* p, uid_t, gid_t) override { rec("chown", p); return -1; }
    int lchown(const char* p, uid_t, gid_t) override { rec("lchown", p); return -1; }
    int statfs(const char* p, struct statfs*) override { rec("statfs", p); return -1; }
    int statvfs(const char* p, struct statvfs*) override { rec("statvfs", p); return -1; }
    int stat(const char* p, struct stat* st) override {
        rec("stat", p);
        if (st) { memset(st, 0, sizeof *st); st->st_mode = S_IFDIR | 0755; }
        return 0;
    }
    int lstat(const char* p, struct stat*) override { rec("lstat", p); return -1; }
    int access(const char* p, int) override { rec("access", p); return -1; }
    int truncate(const char* p, off_t) override { rec("truncate", p); return -1; }
    int utime(const char* p, const struct utimbuf*) override { rec("utime", p); return -1; }
    int utimes(const char* p, const struct timeval*) override { rec("utimes", p); return -1; }
    int lutimes(const char* p, const struct timeval*) override { rec("lutimes", p); return -1; }
    int mknod(const char* p, mode_t, dev_t) override { rec("mknod", p); return -1; }
    int syncfs() override { return 0; }
    DIR* opendir(const char* p) override { rec("opendir", p); return nullptr; }
    ssize_t getxattr(const char* p, const char*, void*, size_t) override { rec("getxattr", p); return -1; }
    ssize_t lgetxattr(const char* p, const char*, void*, size_t) override { rec("lgetxattr", p); return -1; }
    ssize_t listxattr(const char* p, char*, size_t) override { rec("listxattr", p); return -1; }
    ssize_t llistxattr(const char* p, char*, size_t) override { rec("llistxattr", p); return -1; }
    int setxattr(const char* p, const char*, const void*, size_t, int) override { rec("setxattr", p); return -1; }
    int lsetxattr(const char* p, const char*, const void*, size_t, int) override { rec("lsetxattr", p); return -1; }
    int removexattr(const char* p, const char*) override { rec("removexattr", p); return -1; }
    int lremovexattr(const char* p, const char*) override { rec("lremovexattr", p); return -1; }
};

static const char* BASES[] = {"/base", "/base/", "/b/c", "", "/b/../c"};
static const int NBASES = 5;
static const char* OPS[] = {"open", "open3", "creat", "mkdir", "rmdir", "readlink", "unlink", "chmod", "chown", "lchown",
                            "opendir", "stat", "lstat", "access", "truncate", "statfs", "statvfs", "utime", "utimes",
                            "lutimes", "mknod", "getxattr", "lgetxattr", "listxattr", "llistxattr", "setxattr",
                            "lsetxattr", "removexattr", "lremovexattr", "symlink", "link", "rename"};
static const int NOPS = 32;
static const int FIRST_TWO = 30;   // link, rename take two confined paths; symlink's first arg is link content

// lexical model: returns false if some prefix pops below the start
static bool model_stays(const std::string& p, std::vector<std::string>* stack = nullptr) {
    std::vector<std::string> st;
    size_t i = 0;
    while (i <= p.size()) {
        size_t j = p.find('/', i);
        if (j == std::string::npos) j = p.size();
        std::string comp = p.substr(i, j - i);
        if (comp.empty() || comp == ".") {}
        else if (comp == "..") { if (st.empty()) return false; st.pop_back(); }
        else st.push_back(comp);
        i = j + 1;
    }
    if (stack) *stack = st;
    return true;
}

static std::string row2str(const std::vector<long>& r) { std::string s; for (long v : r) s.push_back((char)v); return s; }
static std::vector<long> str2row(const std::string& s) { std::vector<long> r; for (unsigned char ch : s) r.push_back(ch); return r; }

static void do_op(IFileSystem* fs, int op, const char* a, const char* b) {
    auto x = dynamic_cast<IFileSystemXAttr*>(fs);
    struct stat st; struct statfs sf; struct statvfs sv; char buf[16]; struct timeval tv[2] = {};
    switch (op) {
    case 0: fs->open(a, 0); break;
    case 1: fs->open(a, 0, 0644); break;
    case 2: fs->creat(a, 0644); break;
    case 3: fs->mkdir(a, 0755); break;
    case 4: fs->rmdir(a); break;
    case 5: fs->readlink(a, buf, sizeof buf); break;
    case 6: fs->unlink(a); break;
    case 7: fs->chmod(a, 0644); break;
    case 8: fs->chown(a, 0, 0); break;
    case 9: fs->lchown(a, 0, 0); break;
    case 10: fs->opendir(a); break;
    case 11: fs->stat(a, &st); break;
    case 12: fs->lstat(a, &st); break;
    case 13: fs->access(a, 0); break;
    case 14: fs->truncate(a, 0); break;
    case 15: fs->statfs(a, &sf); break;
    case 16: fs->statvfs(a, &sv); break;
    case 17: fs->utime(a, nullptr); break;
    case 18: fs->utimes(a, tv); break;
    case 19: fs->lutimes(a, tv); break;
    case 20: fs->mknod(a, 0644, 0); break;
    case 21: x->getxattr(a, "n", buf, sizeof buf); break;
    case 22: x->lgetxattr(a, "n", buf, sizeof buf); break;
    case 23: x->listxattr(a, buf, sizeof buf); break;
    case 24: x->llistxattr(a, buf, sizeof buf); break;
    case 25: x->setxattr(a, "n", "v", 1, 0); break;
    case 26: x->lsetxattr(a, "n", "v", 1, 0); break;
    case 27: x->removexattr(a, "n"); break;
    case 28: x->lremovexattr(a, "n"); break;
    case 29: fs->symlink(b, a); break;          // a = confined new name, b = link content (exempt)
    case 30: fs->link(a, b); break;
    case 31: fs->rename(a, b); break;
    }
}

// cfg: [base index, op]; sections p1, p2: path bytes
static Outcome run_case(const Case& c) {
    static bool quiet = (set_log_output_level(ALOG_AUDIT + 1), set_log_output(log_output_null), true);
    (void)quiet;
    Outcome out;
    int bi = (int)c.cfg.at(0), op = (int)c.cfg.at(1);
    if (bi < 0 || bi >= NBASES || op < 0 || op >= NOPS) { out.status = Outcome::INCONCLUSIVE; out.msg = "bad case"; return out; }
    std::string p1 = c.S("p1").empty() ? "" : row2str(c.S("p1")[0]);
    std::string p2 = c.S("p2").empty() ? "" : row2str(c.S("p2")[0]);
    std::string base = BASES[bi];
    RecordingFS rfs;
    IFileSystem* sub = new_subfs(&rfs, base.c_str(), false);
    if (!sub) return Outcome::violation("new_subfs failed for base " + base);
    rfs.log.clear();
    // exact-size heap copies so that ASan sees any over-read of the input strings
    char* a = strdup(p1.c_str());
    char* b = strdup(p2.c_str());
    do_op(sub, op, a, b);
    free(a); free(b);
    if (rfs.log.size() != 1) { delete sub; return Outcome::violation("underlay saw " + std::to_string(rfs.log.size()) + " calls for one operation"); }
    Rec r = rfs.log[0];
    delete sub;
    std::string basep = base;
    if (!basep.empty() && basep.back() != '/') basep += '/';
    auto check_one = [&](const std::string& in, bool isnull, const std::string& fwd, const char* which) -> std::string {
        if (base.empty()) {
            if (isnull || fwd != in) return std::string(which) + ": no base configured but path not forwarded verbatim";
            return "";
        }
        bool stays = model_stays(in);
        bool too_long = in.size() + basep.size() >= PATH_MAX - 2;
        if (!stays) {
            if (!isnull) return std::string(which) + ": escaping path '" + in + "' forwarded as '" + fwd + "'";
            return "";
        }
        if (isnull) {
            if (too_long) return "";
            return std::string(which) + ": path '" + in + "' stays inside the base but was rejected";
        }
        if (fwd != basep + in) return std::string(which) + ": path '" + in + "' forwarded as '" + fwd + "', expected '" + basep + in + "'";
        // forwarded string, resolved lexically, stays under the base
        std::vector<std::string> bs, fs_;
        model_stays(basep, &bs);
        if (!model_stays(fwd, &fs_)) return std::string(which) + ": forwarded path pops above the root";
        if (fs_.size() < bs.size() || !std::equal(bs.begin(), bs.end(), fs_.begin()))
            return std::string(which) + ": forwarded path '" + fwd + "' resolves outside the base";
        return "";
    };
    std::string e;
    if (op == 29) {            // symlink(content=b, newname=a): recorded as (old=b, new=a)
        if (r.null1 || r.p1 != p2) e = "symlink content altered";
        else e = check_one(p1, r.null2, r.p2, "newname");
    } else if (op >= FIRST_TWO) {
        e = check_one(p1, r.null1, r.p1, "path1");
        if (e.empty()) e = check_one(p2, r.null2, r.p2, "path2");
    } else {
        e = check_one(p1, r.null1, r.p1, "path");
    }
    if (!e.empty()) return Outcome::violation(std::string(OPS[op]) + " base='" + base + "' " + e);
    bool dd1 = p1.find("..") != std::string::npos;
    std::vector<std::string> dummy;
    auto has_dotdot_comp = [](const std::string& p) {
        size_t i = 0;
        while (i <= p.size()) { size_t j = p.find('/', i); if (j == std::string::npos) j = p.size(); if (p.substr(i, j - i) == "..") return true; i = j + 1; }
        return false;
    };
    (void)dd1;
    bool nt = has_dotdot_comp(p1) || (op >= FIRST_TWO && has_dotdot_comp(p2));
    out.nontrivial = nt && !base.empty();
    if (base.empty()) out.label("no_base");
    else {
        out.label(model_stays(p1) ? "p1_stays" : "p1_escapes");
        if (nt) out.label(model_stays(p1) ? "dotdot_accepted" : "dotdot_rejected");
        if (p1.size() + basep.size() >= PATH_MAX - 2) out.label("too_long");
    }
    if (op >= FIRST_TWO) out.label("two_paths");
    return out;
}

static rc::Gen<std::string> gen_path() {
    return rc::gen::exec([]() {
        std::string s;
        int kind = *range(0, 9);
        if (kind == 0) {      // very long path around the length limit
            int n = *range(4070, 4100);
            int at = *range(0, 40);
            for (int i = 0; i < n; i++) s.push_back(i % 7 == 6 ? '/' : 'a');
            if (*range(0, 1) && (size_t)at + 4 < s.size()) s.replace(at, 4, "/../");
            return s;
        }
        int ncomp = *range(0, 8);
        if (*range(0, 2) == 0) s += "/";
        for (int i = 0; i < ncomp; i++) {
            int k = *range(0, 11);
            switch (k) {
            case 0: case 1: case 2: s += ".."; break;
            case 3: s += "."; break;
            case 4: s += ""; break;                   // empty component => repeated slash
            case 5: s += "..."; break;
            case 6: s += ".a"; break;
            case 7: s += "..a"; break;
            case 8: s += "a."; break;
            case 9: s += "a b"; break;
            case 10: s += "-"; break;
            default: s += std::string(1, (char)('a' + *range(0, 2))); break;
            }
            if (i + 1 < ncomp || *range(0, 3) == 0) s += (*range(0, 5) == 0 ? "//" : "/");
        }
        return s;
    });
}

static rc::Gen<Case> gen_case(const Options& opt) {
    bool excl = opt.has("ordinary_name_then_dotdot");
    return rc::gen::exec([=]() {
        Case c;
        long bi = *range(0, NBASES - 1);
        long op = *range(0, NOPS - 1);
        std::string p1 = *gen_path(), p2 = *gen_path();
        (void)excl;
        c.cfg = {bi, op};
        c.S("p1").push_back(str2row(p1));
        if (op >= 29) c.S("p2").push_back(str2row(p2));
        return c;
    });
}

static std::string describe(const Case& c) {
    std::ostringstream o;
    o << OPS[c.cfg[1]] << " on subfs(base='" << BASES[c.cfg[0]] << "') path1='" << (c.S("p1").empty() ? "" : row2str(c.S("p1")[0])) << "'";
    if (!c.S("p2").empty()) o << " path2='" << row2str(c.S("p2")[0]) << "'";
    return o.str();
}

// exhaustive: all strings over {'/', '.', 'a'} up to length 10 (88573 strings); every one-path
// operation for strings up to length 5, a rotating one beyond; base rotates over the four bases.
static void enumerate(const Options&, const std::function<bool(const Case&)>& emit) {
    const char alpha[3] = {'/', '.', 'a'};
    unsigned long k = 0;
    for (int len = 0; len <= 10; len++) {
        long total = 1;
        for (int i = 0; i < len; i++) total *= 3;
        for (long n = 0; n < total; n++) {
            std::string s;
            long v = n;
            for (int i = 0; i < len; i++) { s.push_back(alpha[v % 3]); v /= 3; }
            int nops = len <= 5 ? NOPS : 1;
            for (int j = 0; j < nops; j++) {
                Case c;
                long op = len <= 5 ? j : (long)(k % NOPS);
                c.cfg = {(long)(k % 3), op};     // bases with a prefix; "no base" is covered by the random part
                c.S("p1").push_back(str2row(s));
                if (op >= 29) c.S("p2").push_back(str2row(op == 29 ? "../x" : s));
                k++;
                if (!emit(c)) return;
            }
        }
    }
}

int main(int argc, char** argv) {
    Harness h;
    h.prop = "C20";
    h.gen = gen_case;
    h.run = run_case;
    h.desc = describe;
    h.fork_per_case = false;
    h.enumerate = enumerate;
    return pbt_main(argc, argv, h);
}
