// C15 — range split: parts tile the requested range exactly, block by block.
// Oracle: direct arithmetic on (offset, length, interval / key points).
#include "pbt.h"
#include <photon/fs/range-split.h>
#include <photon/fs/range-split-vi.h>

using namespace vf;
using photon::fs::sub_range;

// cfg: [variant, offset, length, interval]   variant 0 = range_split, 1 = power2, 2 = vi
// section "kp": one row with the key points (vi only; without the leading 0 and trailing UINT64_MAX)
struct Part { uint64_t i, off, len; bool operator==(const Part& o) const { return i == o.i && off == o.off && len == o.len; } };

static std::string show(const std::vector<Part>& v) {
    std::ostringstream o;
    for (auto& p : v) o << "(" << p.i << "," << p.off << "," << p.len << ")";
    return o.str();
}

template <typename RS, typename BlockBegin>
static Outcome check_split(const RS& rs, uint64_t offset, uint64_t length, BlockBegin bb /* i -> begin offset of block i */,
                           uint64_t nblocks_bound) {
    Outcome out;
    uint64_t end = offset + length;
    // ---- model
    std::vector<Part> model;
    if (length > 0) {
        // find first block
        uint64_t i = 0;
        {   // binary search on bb (monotone)
            uint64_t lo = 0, hi = nblocks_bound;   // bb(hi) > offset guaranteed by caller
            while (lo + 1 < hi) { uint64_t mid = lo + (hi - lo) / 2; if (bb(mid) <= offset) lo = mid; else hi = mid; }
            i = lo;
        }
        uint64_t pos = offset;
        while (pos < end) {
            uint64_t b = bb(i), e = bb(i + 1);
            uint64_t pe = std::min(end, e);
            model.push_back(Part{i, pos - b, pe - pos});
            pos = pe; i++;
            if (model.size() > 100000) { Outcome o; o.status = Outcome::INCONCLUSIVE; o.msg = "more than 100000 blocks"; return o; }
        }
    }
    size_t bound = model.size() + 4;
    // ---- all_parts
    std::vector<Part> parts;
    for (auto& p : rs.all_parts()) {
        parts.push_back(Part{p.i, p.offset, p.length});
        if (parts.size() > bound) return Outcome::violation("all_parts() yields more parts than blocks touched: " + show(parts));
    }
    if (length == 0) {
        for (auto& p : parts) if (p.len) return Outcome::violation("empty range produced a non-empty part: " + show(parts));
    } else {
        if (!(parts == model)) return Outcome::violation("all_parts() = " + show(parts) + " expected " + show(model));
    }
    // ---- classification
    std::vector<Part> cls;
    auto push = [&](const sub_range& s) { if (s) cls.push_back(Part{s.i, s.offset, s.length}); };
    if (rs.small_note) {
        push(rs.small_note);
        size_t n = 0;
        for (auto& p : rs.aligned_parts()) { (void)p; if (++n > 2) break; }
        if (n) return Outcome::violation("small_note present but aligned_parts() is not empty");
    } else {
        push(rs.preface);
        size_t n = 0;
        for (auto& p : rs.aligned_parts()) {
            cls.push_back(Part{p.i, p.offset, p.length});
            if (++n > bound) return Outcome::violation("aligned_parts() does not terminate within the blocks touched (" +
                                                       std::to_string(n) + " parts so far)");
        }
        push(rs.postface);
    }
    std::vector<Part> nonempty;
    for (auto& p : parts) if (p.len) nonempty.push_back(p);
    if (!(cls == nonempty)) return Outcome::violation("classification " + show(cls) + " != all_parts " + show(nonempty));
    // aligned parts really are whole blocks; preface unaligned begin + aligned end; postface aligned begin + unaligned end
    if (length > 0) {
        if (rs.small_note) {
            auto& s = rs.small_note;
            if (!(s.offset > 0 && bb(s.i) + s.offset + s.length < bb(s.i + 1)))
                return Outcome::violation("small_note is not unaligned on both ends");
        } else {
            if (rs.preface && !(rs.preface.offset > 0 && bb(rs.preface.i) + rs.preface.offset + rs.preface.length == bb(rs.preface.i + 1)))
                return Outcome::violation("preface must have unaligned begin and aligned end");
            if (rs.postface && !(rs.postface.offset == 0 && rs.postface.length < bb(rs.postface.i + 1) - bb(rs.postface.i)))
                return Outcome::violation("postface must have aligned begin and unaligned end");
            for (auto& p : rs.aligned_parts())
                if (!(p.offset == 0 && p.length == bb(p.i + 1) - bb(p.i))) return Outcome::violation("aligned part is not a whole block");
        }
        // enclosing aligned offsets, < one interval of slack per side
        uint64_t ab = rs.aligned_begin_offset(), ae = rs.aligned_end_offset();
        uint64_t fb = model.front().i, lb = model.back().i;
        if (!(ab <= offset && offset < bb(fb + 1) && ab == bb(fb)))
            return Outcome::violation("aligned_begin_offset " + std::to_string(ab) + " does not enclose begin tightly");
        if (!(ae >= end && ae == bb(lb + 1)))
            return Outcome::violation("aligned_end_offset " + std::to_string(ae) + " does not enclose end tightly");
        if (rs.is_aligned() != (offset == bb(fb) && end == bb(lb + 1)))
            return Outcome::violation("is_aligned() wrong");
    }
    // labels
    out.nontrivial = length > 0;
    if (length == 0) out.label("empty");
    else if (rs.small_note) out.label("small_note");
    else {
        std::string l = std::string(rs.preface ? "P" : "-") + (model.size() > (size_t)(!!rs.preface + !!rs.postface) ? "A" : "-") + (rs.postface ? "F" : "-");
        out.label("class:" + l);
    }
    if (model.size() == 1) out.label("one_block");
    return out;
}

static Outcome run_case(const Case& c) {
    if (c.cfg.size() < 4) { Outcome o; o.status = Outcome::INCONCLUSIVE; o.msg = "bad case"; return o; }
    long variant = c.cfg[0];
    uint64_t offset = (uint64_t)c.cfg[1], length = (uint64_t)c.cfg[2], interval = (uint64_t)c.cfg[3];
    if (variant == 0) {
        photon::fs::range_split rs(offset, length, interval);
        return check_split(rs, offset, length, [&](uint64_t i) { return i * interval; }, (offset / interval) + 2);
    } else if (variant == 1) {
        photon::fs::range_split_power2 rs(offset, length, interval);
        return check_split(rs, offset, length, [&](uint64_t i) { return i * interval; }, (offset / interval) + 2);
    } else {
        std::vector<uint64_t> kp;
        kp.push_back(0);
        if (!c.S("kp").empty()) for (long v : c.S("kp")[0]) kp.push_back((uint64_t)v);
        kp.push_back(UINT64_MAX);
        // One slack element behind the array: aligned_parts().begin() evaluates get_length(apbegin) even
        // when the list is empty, which for a range inside the last (unbounded) block reads
        // key_points[n].  The value is never used; the statement is about the parts, so the harness
        // keeps that load inside its own array (see DESIGN.md, C15 notes).
        kp.push_back(UINT64_MAX);
        photon::fs::range_split_vi rs(offset, length, kp.data(), kp.size() - 1);
        return check_split(rs, offset, length, [&](uint64_t i) { return i < kp.size() ? kp[i] : UINT64_MAX; }, kp.size() - 2);
    }
}

static rc::Gen<Case> gen_case(const Options& opt) {
    bool excl_empty_unaligned = opt.has("empty_unaligned_aligned_parts");
    return rc::gen::exec([=]() {
        Case c;
        long variant = *range(0, 2);
        // magnitude class: small numbers hit the case analysis densely, big ones the 64-bit arithmetic
        long mag = *range(0, 3);
        auto num = [&](long cap) -> long {
            if (mag == 0) return *range(0, std::min<long>(cap, 40));
            if (mag == 1) return *range(0, std::min<long>(cap, 5000));
            if (mag == 2) return *range(0, std::min<long>(cap, 1L << 33));
            return *range(0, cap);
        };
        const long LIM = (1L << 62);     // offset+length+interval stays below 2^63 (off_t domain)
        if (variant == 2) {
            int n = *range(1, 6);
            std::vector<long> kp;
            long cur = 0;
            for (int i = 0; i < n; i++) { cur += 1 + num(LIM / 8); kp.push_back(cur); }
            c.S("kp").push_back(kp);
            long offset = *range(0, 1) ? kp[*range(0, n - 1)] - *range(0, 1) : num(cur + 50);
            if (offset < 0) offset = 0;
            // keep the range inside the last finite key point + a bit (the last block is unbounded)
            long length = *range(0, 1) ? num(cur + 60) : num(40);
            c.cfg = {variant, offset, length, 0};
            if (excl_empty_unaligned && length == 0) c.cfg[2] = 1;
            return c;
        }
        long interval;
        if (variant == 1) interval = 1L << *range(0, mag == 0 ? 5 : mag == 1 ? 12 : 40);
        else interval = 1 + num(LIM / 4);
        long offset, length;
        long k = *range(0, 5);
        long nb = mag == 0 ? *range(0, 6) : *range(0, 3);
        if (interval > (LIM / 4) / (nb + 2)) nb = 0;
        long base = (LIM / 4 / interval > 0) ? (*range(0, std::min<long>(LIM / 4 / interval - nb - 1 > 0 ? LIM / 4 / interval - nb - 1 : 0, mag == 0 ? 5 : 1L << 20))) * interval : 0;
        switch (k) {
        case 0: offset = base; length = nb * interval; break;                                   // aligned both
        case 1: offset = base + *range(0, interval - 1); length = nb * interval + *range(0, interval - 1); break;
        case 2: offset = base + *range(0, interval - 1); { long e = base + (nb + 1) * interval; length = e - offset; } break; // ends on boundary
        case 3: offset = base; length = nb * interval + *range(0, interval - 1); break;          // starts on boundary
        case 4: offset = base + *range(0, interval - 1); length = *range(0, std::min<long>(interval - 1 - (offset - base), 1L << 40)); break; // inside one block
        default: offset = num(LIM / 4); length = num(mag == 0 ? 60 : (1L << 20)); break;
        }
        // keep the number of blocks touched small (the functions impose no limit, iterating them does)
        if (length / interval > 200) length = length % (200 * interval);
        if (excl_empty_unaligned && length == 0) length = 1;
        c.cfg = {variant, offset, length, interval};
        return c;
    });
}

static std::string describe(const Case& c) {
    std::ostringstream o;
    static const char* nm[] = {"range_split", "range_split_power2", "range_split_vi"};
    o << nm[c.cfg[0]] << "(offset=" << c.cfg[1] << ", length=" << c.cfg[2];
    if (c.cfg[0] == 2) { o << ", key_points=[0"; if (!c.S("kp").empty()) for (long v : c.S("kp")[0]) o << "," << v; o << ",UINT64_MAX])"; }
    else o << ", interval=" << c.cfg[3] << ")";
    return o.str();
}

// exhaustive: interval in 1..17 U {32,64}; offset, length in 0..3*interval+2; both fixed-interval splitters;
// vi: all key-point sets over 3..5 blocks of sizes 1..4, offset/length over the whole finite span + 3
static void enumerate(const Options& opt, const std::function<bool(const Case&)>& emit) {
    bool excl = opt.has("empty_unaligned_aligned_parts");
    std::vector<long> ivs;
    for (long i = 1; i <= 17; i++) ivs.push_back(i);
    ivs.push_back(32); ivs.push_back(64);
    for (long iv : ivs)
        for (long off = 0; off <= 3 * iv + 2; off++)
            for (long len = 0; len <= 3 * iv + 2; len++)
                for (long variant = 0; variant < 2; variant++) {
                    if (variant == 1 && (iv & (iv - 1))) continue;
                    if (excl && len == 0) continue;
                    Case c; c.cfg = {variant, off, len, iv};
                    if (!emit(c)) return;
                }
    for (int nb = 3; nb <= 5; nb++) {
        std::vector<int> sz(nb, 1);
        for (;;) {
            std::vector<long> kp; long cur = 0;
            for (int s : sz) { cur += s; kp.push_back(cur); }
            for (long off = 0; off <= cur + 2; off++)
                for (long len = 0; len <= cur + 3; len++) {
                    if (excl && len == 0) continue;
                    Case c; c.cfg = {2, off, len, 0}; c.S("kp").push_back(kp);
                    if (!emit(c)) return;
                }
            int k = 0;
            while (k < nb && ++sz[k] > 4) { sz[k] = 1; k++; }
            if (k == nb) break;
        }
    }
}

int main(int argc, char** argv) {
    Harness h;
    h.prop = "C15";
    h.gen = gen_case;
    h.run = run_case;
    h.desc = describe;
    h.fork_per_case = false;      // pure arithmetic; every loop in the harness is bounded
    h.enumerate = enumerate;
    return pbt_main(argc, argv, h);
}
