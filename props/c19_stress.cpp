// C19 (part "parallel") — ObjectCache on real vCPUs: generated acquire / hold / release(recycle, destroy) loops over a few
// keys on 2..6 OS threads, with constructors that succeed, fail or take time, and a short lifespan so that the expiry
// timer runs in real time between the operations.  Logical oracle: an object is never destroyed while somebody has
// borrowed it (borrower count inside the object, checked in its destructor), what acquire returns is alive and of the
// right key, two different objects of one key are never borrowed at the same time (borrowers are registered after
// acquire returned and deregistered before release is called, so the window only ever under-approximates), a recycling
// release hands back the object that was held or nothing, and everything is destroyed when the cache is.
#include "pbt.h"
#include <photon/photon.h>
#include <photon/thread/thread.h>
#include <photon/thread/thread11.h>
#include <photon/common/expirecontainer.h>
#include <photon/common/alog.h>
#include <atomic>
#include <mutex>
#include <sstream>
#include <thread>

using vf::Case;
using vf::Outcome;

namespace {

// cfg: [n vcpus, n keys, rounds, lifespan us]
// t<i>: rows [key, ctor (0 ok, 1 fail, 2 yields, 3 sleeps), hold (0 none, 1 yield, 2 burn, 3 sleep), hold arg, recycle, destroy]; role: [vcpu] per thread

struct Shared;
Shared* g_s = nullptr;

struct Obj {
    int key; uint32_t magic = 0x0B1EC7ED;
    std::atomic<int> borrowers{0};
    explicit Obj(int k) : key(k) {}
    ~Obj();
};

struct Shared {
    std::mutex mu; std::string first_violation;
    std::atomic<long> progress{0}, live{0}, constructed{0}, shared_borrows{0}, recycled{0}, ctor_failed{0};
    struct PerKey { std::mutex m; Obj* cur = nullptr; int n = 0; } keys[8];
    void violation(const std::string& m) { std::lock_guard<std::mutex> g(mu); if (first_violation.empty()) first_violation = m; }
};

Obj::~Obj() {
    if (magic != 0x0B1EC7ED) g_s->violation("object of key " + std::to_string(key) + " destroyed twice");
    magic = 0;
    int b = borrowers.load();
    if (b != 0) g_s->violation("object of key " + std::to_string(key) + " destroyed while " + std::to_string(b) + " holder(s) still borrow it");
    g_s->live--;
}

void burn(long n) { volatile long x = 0; for (long i = 0; i < n * 20; i++) x += i; }

Outcome run_case(const Case& c) {
    static bool once = (set_log_output_level(ALOG_AUDIT + 1), set_log_output(log_output_null), true);
    (void)once;
    long nv = std::max<long>(1, c.cfg.at(0)), nkeys = std::max<long>(1, std::min<long>(8, c.cfg.at(1))), rounds = c.cfg.at(2), lifespan = c.cfg.at(3);
    Shared S; g_s = &S;
    using Cache = ObjectCache<int, Obj*>;
    Cache* cache = nullptr;
    auto& roles = c.S("role");
    std::atomic<bool> case_done{false};
    std::thread watchdog([&]() {
        long last = -1; int still = 0;
        while (!case_done && still < 3000) { std::this_thread::sleep_for(std::chrono::milliseconds(10)); long p = S.progress.load(); if (p != last) { last = p; still = 0; } else still++; }
        if (case_done) return;
        vf::finish_now(Outcome::violation("no acquire/release finished anywhere for 30 s: threads blocked" + (S.first_violation.empty() ? std::string() : "; earlier: " + S.first_violation)));
    });
    std::atomic<int> ready{0}, done_threads{0};
    std::vector<std::thread> ths;
    for (long v = 0; v < nv; v++) ths.emplace_back([&, v]() {
        if (photon::init(photon::INIT_EVENT_EPOLL, photon::INIT_IO_NONE) != 0) { S.violation("photon::init failed"); ready++; return; }
        if (v == 0) cache = new Cache((uint64_t)lifespan, 1000);       // the expiry timer lives on vCPU 0
        ready++;
        while (ready.load() < nv || !cache) std::this_thread::yield();
        std::vector<photon::join_handle*> jh;
        for (size_t i = 0; i < roles.size(); i++) {
            if (roles[i].at(0) % nv != v) continue;
            const auto* prog = &c.S("t" + std::to_string(i)); int id = (int)i;
            jh.push_back(photon::thread_enable_join(photon::thread_create11([&, prog, id]() {
                for (long k = 0; k < rounds && S.first_violation.empty(); k++)
                    for (auto& r : *prog) {
                        if (r.size() < 6) continue;
                        int key = (int)(r[0] % nkeys); long ck = r[1], hold = r[2], harg = r[3]; bool recycle = r[4] != 0, destroy = r[5] != 0;
                        bool ran = false;
                        Obj* p = cache->acquire(key, [&]() -> Obj* {
                            ran = true;
                            if (ck == 2) photon::thread_yield(); else if (ck == 3) photon::thread_usleep(50);
                            if (ck == 1) { S.ctor_failed++; return nullptr; }
                            S.live++; S.constructed++;
                            return new Obj(key);
                        });
                        S.progress++;
                        if (!p) { if (ran && ck != 1) S.violation("acquire returned null although its constructor succeeded"); continue; }
                        if (p->magic != 0x0B1EC7ED) { S.violation("acquire returned a destroyed object"); return; }
                        if (p->key != key) S.violation("acquire returned an object of another key");
                        p->borrowers++;
                        { auto& K = S.keys[key]; std::lock_guard<std::mutex> g(K.m);
                          if (K.n > 0 && K.cur != p) S.violation("two different live objects of key " + std::to_string(key) + " are borrowed at the same time");
                          if (K.n > 0) S.shared_borrows++;
                          K.cur = p; K.n++; }
                        if (hold == 1) photon::thread_yield(); else if (hold == 2) burn(harg); else if (hold == 3) photon::thread_usleep((uint64_t)harg);
                        if (p->magic != 0x0B1EC7ED) { S.violation("borrowed object of key " + std::to_string(key) + " was destroyed while held"); return; }
                        { auto& K = S.keys[key]; std::lock_guard<std::mutex> g(K.m); K.n--; }
                        p->borrowers--;
                        Obj* back = cache->release(key, recycle, destroy);
                        S.progress++;
                        if (back) {
                            if (!recycle) S.violation("a plain release returned an object");
                            else if (destroy) S.violation("release(recycle, destroy) returned an object");
                            else if (back != p) S.violation("the recycler was handed a different object than it held");
                            else { S.recycled++; delete back; }
                        }
                    }
            })));
        }
        for (auto j : jh) photon::thread_join(j);
        done_threads++;
        if (v == 0) {
            while (done_threads.load() < nv) photon::thread_usleep(200);
            delete cache; cache = nullptr;
            if (S.live.load() != 0) S.violation(std::to_string(S.live.load()) + " object(s) still alive after the cache was destroyed");
        }
        photon::fini();
    });
    for (auto& t : ths) t.join();
    case_done = true; watchdog.join();
    if (!S.first_violation.empty()) return Outcome::violation(S.first_violation);
    Outcome out;
    out.nontrivial = S.shared_borrows.load() > 0 || S.recycled.load() > 0;
    if (S.shared_borrows.load()) out.label("object_shared_by_two_holders");
    if (S.recycled.load()) out.label("recycled_object_handed_over");
    if (S.ctor_failed.load()) out.label("ctor_failed");
    if (S.constructed.load() > nkeys) out.label("objects_rebuilt(expiry/recycle)");
    out.label("vcpus:" + std::to_string(nv));
    return out;
}

rc::Gen<Case> gen_case(const vf::Options&) {
    return rc::gen::exec([]() {
        Case c;
        long nv = *rc::gen::weightedOneOf<long>({{3, vf::range(2, 3)}, {2, vf::range(4, 6)}});
        long nkeys = *vf::range(1, 3);
        c.cfg = {nv, nkeys, *vf::oneof<long>({20, 150, 600}), *vf::oneof<long>({300, 2000, 50000})};
        long nt = *vf::range(2, 7);
        for (long i = 0; i < nt; i++) {
            c.S("role").push_back({*vf::range(0, nv - 1)});
            long n = *vf::range(1, 3);
            std::vector<std::vector<long>> prog;
            for (long k = 0; k < n; k++)
                prog.push_back({*vf::range(0, nkeys - 1), *rc::gen::weightedOneOf<long>({{5, rc::gen::just<long>(0)}, {1, rc::gen::just<long>(1)}, {2, rc::gen::just<long>(2)}, {1, rc::gen::just<long>(3)}}),
                                *vf::range(0, 3), *vf::range(1, 120), *rc::gen::weightedOneOf<long>({{3, rc::gen::just<long>(0)}, {1, rc::gen::just<long>(1)}}), *vf::range(0, 1)});
            c.S("t" + std::to_string(i)) = prog;
        }
        return c;
    });
}

std::string describe(const Case& c) {
    std::ostringstream o;
    o << "vcpus(os threads)=" << c.cfg[0] << " keys=" << c.cfg[1] << " rounds=" << c.cfg[2] << " lifespan_us=" << c.cfg[3] << "\n";
    static const char* ck[] = {"ok", "fail", "yield", "sleep"};
    for (size_t i = 0; i < c.S("role").size(); i++) {
        o << " t" << i << "@vcpu" << c.S("role")[i][0] % c.cfg[0] << ":";
        for (auto& r : c.S("t" + std::to_string(i))) if (r.size() >= 6) o << " {acquire(key" << r[0] % c.cfg[1] << ", ctor " << ck[r[1] % 4] << "); hold" << r[2] << "(" << r[3] << "); release(" << (r[4] ? "recycle" : "plain") << (r[5] ? ",destroy" : ",keep") << ")}";
        o << "\n";
    }
    return o.str();
}
}  // namespace

int main(int argc, char** argv) {
    vf::Harness h;
    h.prop = "C19";
    h.gen = gen_case;
    h.run = run_case;
    h.desc = describe;
    h.fork_per_case = true;
    h.persistent_child = true;
    return vf::pbt_main(argc, argv, h);
}
