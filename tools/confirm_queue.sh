#!/bin/bash
# confirm_queue.sh "P K" "P K" ...  — run confirmations one after another (the test suite uses fixed
# shared directories, so two ctest runs must never overlap)
for pk in "$@"; do /verif/tools/confirm_seed.sh $pk; done
