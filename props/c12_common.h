// C12 shared pieces: the message family, block tracking, the "walk every field" oracle.
#pragma once
#include <photon/rpc/serialize.h>
#include <photon/common/iovector.h>
#include <photon/common/alog.h>
#include <string>
#include <vector>
#include <sstream>
#include <cstring>

namespace c12 {
using namespace photon;

struct Inner : public rpc::Message {
    uint32_t a = 0;
    uint16_t b = 0;
    rpc::string s;
    PROCESS_FIELDS(a, b, s);
};

#define C12_BIG_FIELDS                                         \
    uint32_t x = 0;                                            \
    rpc::buffer b;                                             \
    rpc::aligned_buffer ab;                                    \
    rpc::fixed_buffer<uint64_t> fb{(void*)nullptr, (size_t)0}; \
    rpc::array<uint32_t> arr;                                  \
    rpc::string str;                                           \
    rpc::iovec_array iva;                                      \
    rpc::aligned_iovec_array aiva;                             \
    Inner inner;                                               \
    rpc::sorted_map<rpc::string, Inner> map;                   \
    uint64_t tail = 0;                                         \
    PROCESS_FIELDS(x, b, ab, fb, arr, str, iva, aiva, inner, map, tail);
struct Big : public rpc::Message { C12_BIG_FIELDS };
struct BigC : public rpc::CheckedMessage<> { C12_BIG_FIELDS };

// small second shape: only fixed fields + one string (so that tiny inputs reach field extraction)
struct Small : public rpc::Message {
    uint16_t k = 0;
    rpc::string s;
    rpc::array<uint16_t> v;
    PROCESS_FIELDS(k, s, v);
};

struct Blocks {
    struct B { const char* p; size_t n; };
    std::vector<B> supplied, allocated;
    bool inside(const void* ptr, size_t len) const {
        const char* q = (const char*)ptr;
        for (auto& b : supplied) if (q >= b.p && q + len <= b.p + b.n) return true;
        for (auto& b : allocated) if (q >= b.p && q + len <= b.p + b.n) return true;
        return false;
    }
};
inline Blocks*& cur_blocks() { static Blocks* b = nullptr; return b; }
inline int rec_alloc(void*, IOAlloc::RangeSize size, void** ptr) {
    int n = size.max;
    char* p = (char*)malloc(n);          // exact size: ASan guards it
    memset(p, 0xEE, n);
    cur_blocks()->allocated.push_back({p, (size_t)n});
    *ptr = p;
    return n;
}
inline int rec_dealloc(void*, void*) { return 0; }    // freed by the harness after the walk
inline IOAlloc recording_alloc() { return IOAlloc(IOAlloc::Allocator{nullptr, &rec_alloc}, IOAlloc::Deallocator{nullptr, &rec_dealloc}); }

// read every byte so that ASan judges the extent
inline unsigned touch(const void* p, size_t n) {
    unsigned s = 0;
    const volatile unsigned char* q = (const volatile unsigned char*)p;
    for (size_t i = 0; i < n; i++) s += q[i];
    return s;
}

struct Walk {
    std::string err;        // first problem found
    unsigned acc = 0;
    long fields_nonempty = 0, map_entries = 0;
    bool zero_len_wild = false;
};

inline void walk_buffer(const Blocks& B, const rpc::buffer& f, const char* name, Walk& w) {
    if (!w.err.empty()) return;
    if (f.size() == 0) {
        // a zero-length field denotes no bytes; its address must not be a wild value taken from the wire
        if (f.addr() != nullptr && !B.inside(f.addr(), 0)) { w.zero_len_wild = true; }
        return;
    }
    if (f.addr() == nullptr) { w.err = std::string(name) + ": size " + std::to_string(f.size()) + " but null address"; return; }
    if (!B.inside(f.addr(), f.size())) { w.err = std::string(name) + ": [" + std::to_string(f.size()) + " bytes] lies outside the supplied bytes"; return; }
    w.acc += touch(f.addr(), f.size());
    w.fields_nonempty++;
}

inline void walk_inner(const Blocks& B, const Inner& in, const char* name, Walk& w) {
    walk_buffer(B, in.s, name, w);
}

template <typename M>
inline void walk_big(const Blocks& B, M* m, Walk& w, const std::vector<std::string>& probe_keys, bool skip_map = false) {
    walk_buffer(B, m->b, "b", w);
    walk_buffer(B, m->ab, "ab", w);
    walk_buffer(B, m->fb, "fb", w);
    walk_buffer(B, m->arr, "arr", w);
    if (w.err.empty()) for (auto it = m->arr.begin(); it != m->arr.end(); ++it) w.acc += *it;
    walk_buffer(B, m->str, "str", w);
    for (auto* ia : {(rpc::iovec_array*)&m->iva, (rpc::iovec_array*)&m->aiva}) {
        if (!w.err.empty()) break;
        // the iovec array itself lives in an allocator block; every element must lie inside the bytes
        if (ia->size() > 0) {
            if (!B.inside(ia->begin(), ia->size() * sizeof(iovec))) { w.err = "iovec_array: the array itself is outside every block"; break; }
            size_t sum = 0;
            for (auto& v : *ia) {
                if (v.iov_len && !B.inside(v.iov_base, v.iov_len)) { w.err = "iovec_array element outside the supplied bytes"; break; }
                w.acc += touch(v.iov_base, v.iov_len);
                sum += v.iov_len;
            }
            if (w.err.empty() && sum != ia->summed_size) w.err = "iovec_array: elements sum to " + std::to_string(sum) + ", summed_size says " + std::to_string(ia->summed_size);
            if (sum) w.fields_nonempty++;
        } else if (ia->summed_size != 0) w.err = "iovec_array: empty but summed_size = " + std::to_string(ia->summed_size);
    }
    walk_inner(B, m->inner, "inner.s", w);
    walk_buffer(B, m->map.index, "map.index", w);
    walk_buffer(B, m->map.base_buffer, "map.base_buffer", w);
    if (!w.err.empty() || skip_map) return;
    // iterate and probe the map the way a receiver would
    size_t n = 0;
    for (auto it = m->map.begin(); it != m->map.end() && n < 64; ++it, ++n) {
        auto& kv = *it;
        if (kv.first.size()) w.acc += touch(kv.first.addr(), kv.first.size());
        if (kv.second.s.size()) w.acc += touch(kv.second.s.addr(), kv.second.s.size());
        w.map_entries++;
    }
    for (auto& k : probe_keys) {
        rpc::string key(std::string_view(k.data(), k.size()));
        auto it = m->map.find(key);
        if (it != m->map.end()) { auto& kv = *it; if (kv.first.size()) w.acc += touch(kv.first.addr(), kv.first.size()); }
    }
}

inline void walk_small(const Blocks& B, Small* m, Walk& w) {
    walk_buffer(B, m->s, "s", w);
    walk_buffer(B, m->v, "v", w);
    if (w.err.empty()) for (auto it = m->v.begin(); it != m->v.end(); ++it) w.acc += *it;
}

}  // namespace c12
