// E1: rapidcheck driver with fork-per-case execution, shrinking to a replay file,
// class labels, distinct-nontrivial counting.  Header-only; one harness TU per property.
#pragma once
#include <rapidcheck.h>
#include <cstdint>
#include <cstdio>
#include <cstdlib>
#include <cstring>
#include <string>
#include <vector>
#include <map>
#include <set>
#include <unordered_set>
#include <sstream>
#include <fstream>
#include <functional>
#include <chrono>
#include <unistd.h>
#include <fcntl.h>
#include <poll.h>
#include <signal.h>
#include <sys/wait.h>
#include <sys/stat.h>

namespace vf {

// ---------------------------------------------------------------- case value
// A case is plain data: a config vector, a list of integer tuples (operations,
// schedule entries, ...) grouped in named sections, and an optional byte blob.
struct Case {
    std::vector<long> cfg;
    // section name -> rows.  Sections keep insertion order through `order`.
    std::vector<std::pair<std::string, std::vector<std::vector<long>>>> sec;
    std::string blob;

    std::vector<std::vector<long>>& S(const std::string& n) {
        for (auto& p : sec) if (p.first == n) return p.second;
        sec.emplace_back(n, std::vector<std::vector<long>>());
        return sec.back().second;
    }
    const std::vector<std::vector<long>>& S(const std::string& n) const {
        static const std::vector<std::vector<long>> empty;
        for (auto& p : sec) if (p.first == n) return p.second;
        return empty;
    }
    bool operator==(const Case& o) const { return cfg == o.cfg && sec == o.sec && blob == o.blob; }
};

inline std::string to_text(const std::string& prop, const Case& c, const std::string& comment = "") {
    std::ostringstream o;
    o << "prop " << prop << "\n";
    if (!comment.empty()) {
        std::istringstream is(comment);
        std::string l;
        while (std::getline(is, l)) o << "# " << l << "\n";
    }
    o << "cfg";
    for (long v : c.cfg) o << ' ' << v;
    o << "\n";
    for (auto& s : c.sec)
        for (auto& r : s.second) {
            o << s.first;
            for (long v : r) o << ' ' << v;
            o << "\n";
        }
    if (!c.blob.empty()) {
        static const char* hx = "0123456789abcdef";
        o << "blob ";
        for (unsigned char ch : c.blob) o << hx[ch >> 4] << hx[ch & 15];
        o << "\n";
    }
    return o.str();
}

inline bool from_text(const std::string& text, std::string* prop, Case* c) {
    std::istringstream is(text);
    std::string line;
    *c = Case();
    while (std::getline(is, line)) {
        if (line.empty() || line[0] == '#') continue;
        std::istringstream ls(line);
        std::string key;
        ls >> key;
        if (key == "prop") { ls >> *prop; continue; }
        if (key == "blob") {
            std::string h; ls >> h;
            for (size_t i = 0; i + 1 < h.size(); i += 2)
                c->blob.push_back((char)std::stoi(h.substr(i, 2), nullptr, 16));
            continue;
        }
        std::vector<long> row;
        long v;
        while (ls >> v) row.push_back(v);
        if (key == "cfg") c->cfg = row;
        else c->S(key).push_back(row);
    }
    return true;
}

inline uint64_t fnv64(const std::string& s, uint64_t h = 1469598103934665603ULL) {
    for (unsigned char ch : s) { h ^= ch; h *= 1099511628211ULL; }
    return h;
}
inline uint64_t splitmix(uint64_t x) {
    x += 0x9E3779B97F4A7C15ULL;
    x = (x ^ (x >> 30)) * 0xBF58476D1CE4E5B9ULL;
    x = (x ^ (x >> 27)) * 0x94D049BB133111EBULL;
    return x ^ (x >> 31);
}

// ---------------------------------------------------------------- outcome
struct Outcome {
    enum { OK = 0, VIOLATION = 1, INCONCLUSIVE = 2 };
    int status = OK;
    std::string msg;                 // violation message / inconclusive reason
    std::vector<std::string> labels; // class labels of this case
    bool nontrivial = false;
    void label(const std::string& l) { labels.push_back(l); }
    static Outcome violation(const std::string& m) { Outcome o; o.status = VIOLATION; o.msg = m; return o; }
};

struct Options {
    std::set<std::string> exclude;   // known-finding triggers excluded by construction
    int tier = 0;                    // 0 quick, 1 thorough
    bool has(const std::string& t) const { return exclude.count(t) != 0; }
};

using RunFn = std::function<Outcome(const Case&)>;
using GenFn = std::function<rc::Gen<Case>(const Options&)>;
using DescFn = std::function<std::string(const Case&)>;

inline void showValue(const Case& c, std::ostream& os) { os << to_text("?", c); }

// sized integer helper: inRange collapses at small sizes unless resized
inline rc::Gen<long> range(long lo, long hi /*inclusive*/) {
    return rc::gen::resize(100, rc::gen::inRange<long>(lo, hi + 1));
}
// pick weighted element helper
template <typename T>
inline rc::Gen<T> oneof(std::vector<T> v) { return rc::gen::elementOf(v); }

// ---------------------------------------------------------------- child exec
inline std::string ser_outcome(const Outcome& o) {
    std::ostringstream s;
    s << o.status << "\n" << (o.nontrivial ? 1 : 0) << "\n" << o.labels.size() << "\n";
    for (auto& l : o.labels) s << l << "\n";
    s << o.msg;
    return s.str();
}
inline Outcome de_outcome(const std::string& t) {
    Outcome o;
    std::istringstream s(t);
    std::string l;
    std::getline(s, l); o.status = atoi(l.c_str());
    std::getline(s, l); o.nontrivial = atoi(l.c_str()) != 0;
    std::getline(s, l); int n = atoi(l.c_str());
    for (int i = 0; i < n; i++) { std::getline(s, l); o.labels.push_back(l); }
    std::ostringstream rest; rest << s.rdbuf(); o.msg = rest.str();
    return o;
}

// index of this search worker (0..15) when started by ./check, else -1; engines use it to spread over cores
inline int& worker_index() { static int w = -1; return w; }
// Where a forked child writes its outcome; -1 when the case runs in-process (replay).
inline int& result_fd() { static int fd = -1; return fd; }
// End the case right here (used by engines that cannot unwind: a run stopped at quiescence, at a
// step bound or on the first violation while OS threads are parked).  Never returns.
inline bool& server_mode() { static bool b = false; return b; }
inline std::function<void()>& at_finish() { static std::function<void()> f; return f; }   // harness clean-up (scratch files) before the process ends
[[noreturn]] inline void finish_now(const Outcome& o) {
    if (at_finish()) { auto f = at_finish(); at_finish() = nullptr; f(); }
    if (result_fd() >= 0) {
        std::string s = ser_outcome(o);
        if (server_mode()) { uint32_t n = (uint32_t)s.size(); s = std::string((const char*)&n, 4) + s; }
        size_t off = 0;
        while (off < s.size()) { ssize_t w = write(result_fd(), s.data() + off, s.size() - off); if (w <= 0) break; off += w; }
        _exit(server_mode() ? 77 : 0);      // 77: "this child cannot serve another case" (not a crash)
    }
    printf("RESULT %s nontrivial=%d\n", o.status == 0 ? "ok" : o.status == 1 ? "violation" : "inconclusive", (int)o.nontrivial);
    for (auto& l : o.labels) printf("LABEL %s\n", l.c_str());
    if (!o.msg.empty()) printf("MSG %s\n", o.msg.c_str());
    fflush(stdout);
    _exit(o.status);
}

struct ForkRunner {
    std::string scratch;
    int wall_limit_s = 120;
    // ---- persistent child ("server") mode: one child executes many cases; it is re-forked after a
    // crash, so a sanitizer abort still pins the exact case.  Only for harnesses without global state.
    pid_t srv = -1; int to_srv = -1, from_srv = -1; long srv_cases = 0; long restart_every = 20000;
    static bool write_all(int fd, const std::string& s) {
        uint32_t n = (uint32_t)s.size();
        std::string buf((const char*)&n, 4); buf += s;
        size_t off = 0;
        while (off < buf.size()) { ssize_t w = write(fd, buf.data() + off, buf.size() - off); if (w <= 0) { if (errno == EINTR) continue; return false; } off += w; }
        return true;
    }
    static bool read_n(int fd, char* p, size_t n, int timeout_s) {
        size_t off = 0;
        auto t0 = std::chrono::steady_clock::now();
        while (off < n) {
            struct pollfd pf = {fd, POLLIN, 0};
            int r = poll(&pf, 1, 1000);
            if (r > 0) { ssize_t k = read(fd, p + off, n - off); if (k > 0) { off += k; continue; } if (k < 0 && errno == EINTR) continue; return false; }
            if (timeout_s > 0 && std::chrono::duration_cast<std::chrono::seconds>(std::chrono::steady_clock::now() - t0).count() > timeout_s) return false;
        }
        return true;
    }
    static bool read_msg(int fd, std::string* out, int timeout_s) {
        uint32_t n;
        if (!read_n(fd, (char*)&n, 4, timeout_s)) return false;
        out->resize(n);
        return n == 0 || read_n(fd, &(*out)[0], n, timeout_s);
    }
    void stop_server() {
        if (srv > 0) { close(to_srv); close(from_srv); kill(srv, SIGKILL); int st; while (waitpid(srv, &st, 0) < 0 && errno == EINTR) {} srv = -1; }
    }
    Outcome run_server(const RunFn& fn, const Case& c) {
        std::string errf = scratch + "/err." + std::to_string(getpid());
        if (srv > 0 && srv_cases >= restart_every) stop_server();      // bound quarantine / fragmentation growth
        if (srv < 0) {
            int a[2], b[2];
            if (pipe(a) || pipe(b)) { perror("pipe"); exit(3); }
            fflush(stdout); fflush(stderr);
            srv = fork();
            if (srv < 0) { perror("fork"); exit(3); }
            if (srv == 0) {
                close(a[1]); close(b[0]);
                int efd = open(errf.c_str(), O_WRONLY | O_CREAT | O_TRUNC, 0644);
                if (efd >= 0) { dup2(efd, 2); close(efd); }
                int nfd = open("/dev/null", O_WRONLY);
                if (nfd >= 0) { dup2(nfd, 1); close(nfd); }
                std::string msg;
                server_mode() = true; result_fd() = b[1];
                while (read_msg(a[0], &msg, 0)) {
                    std::string prop; Case cc;
                    from_text(msg, &prop, &cc);
                    Outcome o = fn(cc);
                    if (!write_all(b[1], ser_outcome(o))) break;
                }
                _exit(0);
            }
            close(a[0]); close(b[1]);
            to_srv = a[1]; from_srv = b[0]; srv_cases = 0;
        }
        srv_cases++;
        std::string reply;
        bool ok = write_all(to_srv, to_text("?", c)) && read_msg(from_srv, &reply, wall_limit_s);
        if (ok) return de_outcome(reply);
        // no reply: the child ended itself after the previous case (status 77), crashed, or hangs
        int st = 0; bool hung = false;
        pid_t r = waitpid(srv, &st, WNOHANG);
        for (int i = 0; i < 100 && r == 0; i++) { usleep(20000); r = waitpid(srv, &st, WNOHANG); }   // let it finish dying / printing
        if (r == 0) { hung = true; kill(srv, SIGKILL); while (waitpid(srv, &st, 0) < 0 && errno == EINTR) {} }
        close(to_srv); close(from_srv); srv = -1;
        if (hung) { Outcome o; o.status = Outcome::INCONCLUSIVE; o.msg = "wall-clock safety limit"; return o; }
        if (WIFEXITED(st) && WEXITSTATUS(st) == 77 && !retrying) {
            retrying = true;
            Outcome o2 = run_server(fn, c);
            retrying = false;
            return o2;
        }
        return crash_outcome(st, errf);
    }
    bool retrying = false;
    Outcome crash_outcome(int st, const std::string& errf) {
        Outcome o;
        std::string tail;
        { std::ifstream f(errf); std::stringstream ss; ss << f.rdbuf(); tail = ss.str();
          if (tail.size() > 3000) tail = tail.substr(0, 2200) + "\n...\n" + tail.substr(tail.size() - 700); }
        o.status = Outcome::VIOLATION;
        std::ostringstream m;
        if (WIFSIGNALED(st)) m << "child died on signal " << WTERMSIG(st); else m << "child exited with status " << (WIFEXITED(st) ? WEXITSTATUS(st) : -1);
        m << "\n" << tail;
        o.msg = m.str(); o.labels.push_back("crash");
        return o;
    }
    Outcome run(const RunFn& fn, const Case& c) {
        int pfd[2];
        if (pipe(pfd)) { perror("pipe"); exit(3); }
        std::string errf = scratch + "/err." + std::to_string(getpid());
        fflush(stdout); fflush(stderr);
        pid_t pid = fork();
        if (pid < 0) { perror("fork"); exit(3); }
        if (pid == 0) {
            close(pfd[0]);
            int efd = open(errf.c_str(), O_WRONLY | O_CREAT | O_TRUNC, 0644);
            if (efd >= 0) { dup2(efd, 2); close(efd); }
            int nfd = open("/dev/null", O_WRONLY);
            if (nfd >= 0) { dup2(nfd, 1); close(nfd); }
            result_fd() = pfd[1];
            Outcome o = fn(c);
            std::string s = ser_outcome(o);
            size_t off = 0;
            while (off < s.size()) {
                ssize_t w = write(pfd[1], s.data() + off, s.size() - off);
                if (w <= 0) break;
                off += w;
            }
            close(pfd[1]);
            _exit(0);
        }
        close(pfd[1]);
        std::string buf;
        char tmp[4096];
        auto t0 = std::chrono::steady_clock::now();
        bool timed_out = false;
        for (;;) {
            struct pollfd p = {pfd[0], POLLIN, 0};
            int r = poll(&p, 1, 1000);
            if (r > 0) {
                ssize_t n = read(pfd[0], tmp, sizeof tmp);
                if (n > 0) { buf.append(tmp, n); continue; }
                if (n == 0) break;
                if (errno == EINTR) continue;
                break;
            }
            auto el = std::chrono::duration_cast<std::chrono::seconds>(std::chrono::steady_clock::now() - t0).count();
            if (el > wall_limit_s) { timed_out = true; kill(pid, SIGKILL); break; }
        }
        close(pfd[0]);
        int st = 0;
        while (waitpid(pid, &st, 0) < 0 && errno == EINTR) {}
        Outcome o;
        if (timed_out) {
            o.status = Outcome::INCONCLUSIVE; o.msg = "wall-clock safety limit"; return o;
        }
        if (WIFEXITED(st) && WEXITSTATUS(st) == 0 && !buf.empty()) return de_outcome(buf);
        // crash: sanitizer abort, assert, signal
        std::string tail;
        {
            std::ifstream f(errf);
            std::stringstream ss; ss << f.rdbuf();
            tail = ss.str();
            if (tail.size() > 3000) tail = tail.substr(0, 2200) + "\n...\n" + tail.substr(tail.size() - 700);
        }
        o.status = Outcome::VIOLATION;
        std::ostringstream m;
        if (WIFSIGNALED(st)) m << "child died on signal " << WTERMSIG(st);
        else m << "child exited with status " << (WIFEXITED(st) ? WEXITSTATUS(st) : -1);
        m << "\n" << tail;
        o.msg = m.str();
        o.labels.push_back("crash");
        return o;
    }
};

// ---------------------------------------------------------------- driver
struct Stats {
    long evaluations = 0, nontrivial = 0, shrink_evals = 0;
    std::unordered_set<uint64_t> fps;
    std::map<std::string, long> labels;
    std::map<std::string, long> inconclusive;
    std::vector<std::string> samples;
};

inline std::string jesc(const std::string& s) {
    std::string o;
    for (unsigned char c : s) {
        if (c == '"') o += "\\\"";
        else if (c == '\\') o += "\\\\";
        else if (c == '\n') o += "\\n";
        else if (c == '\t') o += "\\t";
        else if (c < 0x20 || c >= 0x7f) { char b[8]; snprintf(b, sizeof b, "\\u%04x", c); o += b; }
        else o += c;
    }
    return o;
}

inline std::string read_file(const std::string& p) {
    std::ifstream f(p, std::ios::binary);
    std::stringstream ss; ss << f.rdbuf();
    return ss.str();
}

struct Harness {
    std::string prop;
    GenFn gen;
    RunFn run;
    DescFn desc;     // optional pretty-printer (goes into '#' comment lines)
    bool fork_per_case = true;
    bool persistent_child = false;   // with fork_per_case: one child serves many cases (stateless harnesses only)
    // optional exhaustive enumeration of a bounded sub-domain (engine E5); runs with --enum
    // (worker 0 only).  Calls emit(case) for every point; emit returns false to stop.
    std::function<void(const Options&, const std::function<bool(const Case&)>&)> enumerate;
};

inline int usage() {
    fprintf(stderr, "usage: --replay FILE | --search --seed S --cases N --max-size M --budget-s T "
                    "--out STATS.json --replay-dir DIR [--exclude a,b] [--tier quick|thorough] [--nofork]\n");
    return 3;
}

inline int pbt_main(int argc, char** argv, Harness h) {
    std::map<std::string, std::string> a;
    for (int i = 1; i < argc; i++) {
        std::string k = argv[i];
        if (k == "--search" || k == "--nofork" || k == "--enum") a[k] = "1";
        else if (i + 1 < argc) a[k] = argv[++i];
    }
    Options opt;
    if (a.count("--exclude")) {
        std::istringstream is(a["--exclude"]);
        std::string t;
        while (std::getline(is, t, ',')) if (!t.empty()) opt.exclude.insert(t);
    }
    opt.tier = a["--tier"] == "thorough" ? 1 : 0;
    if (a.count("--worker")) worker_index() = atoi(a["--worker"].c_str());
    if (a.count("--replay")) {
        std::string p; Case c;
        from_text(read_file(a["--replay"]), &p, &c);
        Outcome o = h.run(c);
        printf("RESULT %s nontrivial=%d\n", o.status == 0 ? "ok" : o.status == 1 ? "violation" : "inconclusive", (int)o.nontrivial);
        for (auto& l : o.labels) printf("LABEL %s\n", l.c_str());
        if (!o.msg.empty()) printf("MSG %s\n", o.msg.c_str());
        fflush(stdout);
        _exit(o.status);    // skip static destructors of half-torn-down runtimes
    }
    if (!a.count("--search")) return usage();
    signal(SIGPIPE, SIG_IGN);       // a persistent child may be gone when the next case is written to it
    uint64_t seed = strtoull(a["--seed"].c_str(), 0, 10);
    long cases = atol(a["--cases"].c_str());
    int max_size = a.count("--max-size") ? atoi(a["--max-size"].c_str()) : 100;
    double budget = a.count("--budget-s") ? atof(a["--budget-s"].c_str()) : 1e9;
    std::string out = a["--out"], rdir = a["--replay-dir"];
    bool nofork = a.count("--nofork") || !h.fork_per_case;
    ForkRunner fr;
    fr.scratch = rdir;
    mkdir(rdir.c_str(), 0755);

    // in-process mode: keep the case being executed on disk, so a crash of the worker still
    // leaves a replayable (unshrunk) case behind
    int curfd = nofork ? open((rdir + "/current.case").c_str(), O_WRONLY | O_CREAT | O_TRUNC, 0644) : -1;
    auto note_current = [&](const Case& c) {
        if (curfd < 0) return;
        std::string t = to_text(h.prop, c, "worker crashed while executing this case (not shrunk)");
        if (pwrite(curfd, t.data(), t.size(), 0) < 0) return;
        if (ftruncate(curfd, t.size())) return;
    };
    Stats st;
    std::string last_fail_text, last_fail_msg;
    bool failing = false;       // becomes true at first failure => subsequent evals are shrink steps
    auto t0 = std::chrono::steady_clock::now();
    auto elapsed = [&] { return std::chrono::duration<double>(std::chrono::steady_clock::now() - t0).count(); };
    rc::Gen<Case> g = h.gen(opt);
    bool budget_hit = false, shrink_cut = false;
    double t_fail = 0, shrink_budget = getenv("VERIF_SHRINK_S") ? atof(getenv("VERIF_SHRINK_S")) : 90;

    auto property = [&]() {
        Case c = *g;
        if (!failing && (st.evaluations >= cases || elapsed() > budget)) { budget_hit = true; return; }
        // shrinking is bounded too: once the budget is spent every further candidate counts as passing, which ends it
        if (failing && elapsed() - t_fail > shrink_budget) { shrink_cut = true; return; }
        note_current(c);
        Outcome o = nofork ? h.run(c) : h.persistent_child ? fr.run_server(h.run, c) : fr.run(h.run, c);
        if (failing) st.shrink_evals++;
        else {
            st.evaluations++;
            for (auto& l : o.labels) st.labels[l]++;
            if (o.status == Outcome::INCONCLUSIVE) {
                st.inconclusive[o.msg.substr(0, 80)]++;
                if (st.inconclusive[o.msg.substr(0, 80)] <= 2) {      // keep a couple for triage
                    std::string t = to_text(h.prop, c, "inconclusive: " + o.msg);
                    char nm[64]; snprintf(nm, sizeof nm, "%016llx", (unsigned long long)fnv64(t));
                    std::ofstream f(rdir + "/inconclusive-" + nm + ".case"); f << t;
                }
            }
            if (o.nontrivial && o.status != Outcome::INCONCLUSIVE) {
                st.nontrivial++;
                std::string txt = to_text(h.prop, c);
                st.fps.insert(fnv64(txt));
                long n = st.nontrivial;
                if (n == 1 || n == 10 || n == 100 || n == 1000 || n == 10000)
                    st.samples.push_back(to_text(h.prop, c, h.desc ? h.desc(c) : ""));
            }
        }
        if (o.status == Outcome::VIOLATION) {
            if (!failing) t_fail = elapsed();
            failing = true;
            last_fail_text = to_text(h.prop, c, (h.desc ? h.desc(c) + "\n" : std::string()) + "violation: " + o.msg.substr(0, 1500));
            last_fail_msg = o.msg;
            RC_FAIL(o.msg.substr(0, 400));
        }
    };

    bool failed = false;
    std::string replay_path;
    long enumerated = 0;
    bool enum_complete = false;
    if (a.count("--enum") && h.enumerate) {
        // enumeration goes small -> large, so the first failure is (near) minimal; no shrinking
        h.enumerate(opt, [&](const Case& c) {
            note_current(c);
            Outcome o = nofork ? h.run(c) : h.persistent_child ? fr.run_server(h.run, c) : fr.run(h.run, c);
            st.evaluations++; enumerated++;
            for (auto& l : o.labels) st.labels[l]++;
            if (o.nontrivial) {
                st.nontrivial++;
                st.fps.insert(fnv64(to_text(h.prop, c)));
                long n = st.nontrivial;
                if (n == 1 || n == 1000 || n == 100000)
                    st.samples.push_back(to_text(h.prop, c, h.desc ? h.desc(c) : ""));
            }
            if (o.status == Outcome::VIOLATION) {
                failed = true;
                last_fail_text = to_text(h.prop, c, (h.desc ? h.desc(c) + "\n" : std::string()) + "violation: " + o.msg.substr(0, 1500));
                last_fail_msg = o.msg;
                return false;
            }
            return true;
        });
        enum_complete = !failed;
        cases += enumerated;
    }
    for (uint64_t batch = 0; !failed && !budget_hit && st.evaluations < cases && elapsed() < budget; batch++) {
        rc::detail::TestParams params;
        params.seed = splitmix(seed * 1000003ULL + batch);
        long remaining = cases - st.evaluations;
        params.maxSuccess = (int)std::min<long>(remaining, 200);
        params.maxSize = max_size;
        params.maxDiscardRatio = 10;
        rc::detail::TestMetadata md;
        md.id = h.prop; md.description = h.prop;
        auto res = rc::detail::checkTestable(property, md, params);
        if (res.template is<rc::detail::FailureResult>()) failed = true;
        else if (res.template is<rc::detail::Error>()) {
            rc::detail::Error e = res.template get<rc::detail::Error>();
            fprintf(stderr, "rapidcheck error: %s\n", e.description.c_str());
            return 3;
        } else if (res.template is<rc::detail::GaveUpResult>()) {
            fprintf(stderr, "rapidcheck gave up: too many discards\n");
            return 3;
        }
    }
    if (failed) {
        char nm[64];
        snprintf(nm, sizeof nm, "%016llx", (unsigned long long)fnv64(last_fail_text));
        replay_path = rdir + "/" + h.prop + "-" + nm + ".case";
        std::ofstream f(replay_path);
        f << last_fail_text;
    }
    // stats out
    {
        std::ofstream f(out);
        f << "{\n \"evaluations\": " << st.evaluations << ",\n \"nontrivial\": " << st.nontrivial
          << ",\n \"shrink_evals\": " << st.shrink_evals << ",\n \"wall_s\": " << elapsed()
          << ",\n \"seed\": " << seed << ",\n \"enumerated\": " << enumerated
          << ",\n \"enum_complete\": " << (enum_complete ? "true" : "false") << ",\n \"labels\": {";
        bool first = true;
        for (auto& kv : st.labels) { f << (first ? "" : ", ") << "\"" << jesc(kv.first) << "\": " << kv.second; first = false; }
        f << "},\n \"inconclusive\": {";
        first = true;
        for (auto& kv : st.inconclusive) { f << (first ? "" : ", ") << "\"" << jesc(kv.first) << "\": " << kv.second; first = false; }
        f << "},\n \"samples\": [";
        first = true;
        for (auto& s : st.samples) { f << (first ? "" : ", ") << "\"" << jesc(s) << "\""; first = false; }
        f << "],\n \"failure\": ";
        if (failed) f << "{\"replay\": \"" << jesc(replay_path) << "\", \"msg\": \"" << jesc(last_fail_msg.substr(0, 3000)) << "\"}";
        else f << "null";
        f << "\n}\n";
        std::ofstream fp(out + ".fps", std::ios::binary);
        for (uint64_t v : st.fps) fp.write((const char*)&v, 8);
    }
    fr.stop_server();
    unlink((rdir + "/err." + std::to_string(getpid())).c_str());
    if (curfd >= 0) unlink((rdir + "/current.case").c_str());
    fflush(stdout);
    _exit(failed ? 1 : 0);
}

}  // namespace vf
