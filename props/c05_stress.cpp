// C05 (part "parallel") — thread lifecycle on real vCPUs with work stealing: parents on 2..6 OS threads create children
// (joinable or detached, stealable or not, default or pooled stacks are the library's choice), the children yield /
// sleep / compute, parents interrupt and join them, idle vCPUs steal.  Logical oracle: every child's entry function
// runs exactly once and is inside its body on at most one OS thread at a time (a per-child "inside" flag is held over
// every non-blocking stretch), thread_join returns after the entry function returned with its value, detached
// children all finish, the asserts of the scheduler and ASan on the stacks hold.  Wall-clock element: nothing
// finishes for 30 s.
#include "pbt.h"
#include <photon/photon.h>
#include <photon/io/fd-events.h>
#include <photon/thread/thread.h>
#include <photon/thread/thread11.h>
#include <photon/common/alog.h>
#include <atomic>
#include <deque>
#include <mutex>
#include <sstream>
#include <thread>

using vf::Case;
using vf::Outcome;

namespace {

// cfg: [n vcpus, rounds];  vcpu: one row [work-stealing flags 0..3] per vCPU
// p<v>: program of the parent on vCPU v: rows [joinable, stealable, interrupt it (0/1), body ops as pairs (0 yield | 1 sleep us | 2 burn, arg)...]

struct Shared;
struct Child {
    Shared* S; int id; bool joinable; std::vector<std::pair<long, long>> body;
    std::atomic<int> runs{0}, inside{0}; std::atomic<bool> finished{false};
    photon::thread* th = nullptr;
};
struct Shared {
    std::mutex mu; std::string first_violation;
    std::atomic<long> progress{0}, created{0}, finished{0}, detached_pending{0}, migrated_runs{0}, interrupted{0};
    void violation(const std::string& m) { std::lock_guard<std::mutex> g(mu); if (first_violation.empty()) first_violation = m; }
};

void burn(long n) { volatile long x = 0; for (long i = 0; i < n * 20; i++) x += i; }

void* child_entry(void* a) {
    Child* k = (Child*)a; Shared& S = *k->S;
    if (++k->runs > 1) S.violation("child " + std::to_string(k->id) + " was started " + std::to_string(k->runs.load()) + " times");
    auto start_os = std::this_thread::get_id();
    bool moved = false;
    auto enter = [&]() { if (k->inside.exchange(1) != 0) S.violation("child " + std::to_string(k->id) + " is being executed by two vCPUs at once"); };
    auto leave = [&]() { k->inside.store(0); };
    enter();
    for (auto& op : k->body) {
        if (op.first == 2) { burn(op.second); continue; }
        leave();
        if (op.first == 0) photon::thread_yield(); else photon::thread_usleep((uint64_t)op.second);
        enter();
        if (std::this_thread::get_id() != start_os) moved = true;
    }
    leave();
    if (moved) S.migrated_runs++;
    k->finished = true; S.finished++; S.progress++;
    void* rv = (void*)(long)(k->id * 7 + 1);
    if (!k->joinable) { S.detached_pending--; delete k; }
    return rv;
}

Outcome run_case(const Case& c) {
    static bool once = (set_log_output_level(ALOG_AUDIT + 1), set_log_output(log_output_null), true);
    (void)once;
    long nv = std::max<long>(2, c.cfg.at(0)), rounds = c.cfg.at(1);
    Shared S;
    std::atomic<bool> case_done{false};
    std::thread watchdog([&]() {
        long last = -1; int still = 0;
        while (!case_done && still < 3000) { std::this_thread::sleep_for(std::chrono::milliseconds(10)); long p = S.progress.load(); if (p != last) { last = p; still = 0; } else still++; }
        if (case_done) return;
        vf::finish_now(Outcome::violation("no child finished and no join returned for 30 s: " + std::to_string(S.created.load() - S.finished.load()) + " child(ren) unfinished" +
                                          (S.first_violation.empty() ? "" : "; earlier: " + S.first_violation)));
    });
    std::atomic<int> ready{0}, parents_left{(int)nv};
    std::vector<std::thread> ths;
    for (long v = 0; v < nv; v++) ths.emplace_back([&, v]() {
        int flags = (int)(c.S("vcpu").size() > (size_t)v ? c.S("vcpu")[(size_t)v].at(0) & 3 : 0);
        if (photon::vcpu_init((uint64_t)flags) < 0 || photon::fd_events_init(photon::INIT_EVENT_EPOLL) < 0) { S.violation("vcpu_init failed"); ready++; parents_left--; return; }
        ready++;
        while (ready.load() < nv) std::this_thread::yield();
        const auto& prog = c.S("p" + std::to_string(v));
        for (long round = 0; round < rounds && S.first_violation.empty(); round++) {
            std::vector<Child*> mine;
            for (auto& r : prog) {
                if (r.size() < 3) continue;
                auto k = new Child; k->S = &S; k->id = (int)S.created++; k->joinable = r[0] != 0;
                for (size_t i = 3; i + 1 < r.size(); i += 2) k->body.push_back({r[i], r[i + 1]});
                uint64_t fl = (k->joinable ? photon::THREAD_JOINABLE : 0) | (r[1] ? photon::THREAD_ENABLE_WORK_STEALING : 0);
                if (!k->joinable) S.detached_pending++;
                bool joinable = k->joinable, intr = r[2] != 0;
                k->th = photon::thread_create(&child_entry, k, 128 * 1024, 0, fl);
                if (!k->th) { S.violation("thread_create failed"); break; }
                if (joinable) { mine.push_back(k); if (intr) { photon::thread_yield(); photon::thread_interrupt(k->th, EINTR); S.interrupted++; } }
            }
            for (Child* k : mine) {
                void* rv = photon::thread_join((photon::join_handle*)k->th);
                S.progress++;
                if (!k->finished) S.violation("thread_join of child " + std::to_string(k->id) + " returned before its entry function returned");
                if (rv != (void*)(long)(k->id * 7 + 1)) S.violation("thread_join of child " + std::to_string(k->id) + " returned a wrong value");
                if (k->runs != 1) S.violation("joined child " + std::to_string(k->id) + " ran " + std::to_string(k->runs.load()) + " times");
                delete k;
            }
        }
        parents_left--;
        // stay as a work-stealing target / stealer until everybody is done and every detached child has finished
        while ((parents_left.load() > 0 || S.detached_pending.load() > 0) && S.first_violation.empty()) photon::thread_usleep(300);
        photon::fd_events_fini();
        photon::vcpu_fini();
    });
    for (auto& t : ths) t.join();
    case_done = true; watchdog.join();
    if (S.first_violation.empty() && S.created.load() != S.finished.load()) S.violation(std::to_string(S.created.load()) + " children were created but " + std::to_string(S.finished.load()) + " finished");
    if (!S.first_violation.empty()) return Outcome::violation(S.first_violation);
    Outcome out;
    out.nontrivial = S.migrated_runs.load() > 0;
    if (S.migrated_runs.load()) out.label("child_continued_on_another_vcpu(stolen)");
    if (S.interrupted.load()) out.label("children_interrupted");
    out.label("vcpus:" + std::to_string(nv));
    return out;
}

rc::Gen<Case> gen_case(const vf::Options&) {
    return rc::gen::exec([]() {
        Case c;
        long nv = *rc::gen::weightedOneOf<long>({{3, vf::range(2, 3)}, {2, vf::range(4, 6)}});
        c.cfg = {nv, *vf::oneof<long>({10, 60, 250})};
        for (long v = 0; v < nv; v++) {
            c.S("vcpu").push_back({*rc::gen::weightedOneOf<long>({{1, rc::gen::just<long>(0)}, {2, rc::gen::just<long>(1)}, {2, rc::gen::just<long>(2)}, {4, rc::gen::just<long>(3)}})});
            long n = *vf::range(0, 4);
            std::vector<std::vector<long>> prog;
            for (long k = 0; k < n; k++) {
                std::vector<long> row = {*vf::range(0, 1), *rc::gen::weightedOneOf<long>({{1, rc::gen::just<long>(0)}, {3, rc::gen::just<long>(1)}}), *rc::gen::weightedOneOf<long>({{3, rc::gen::just<long>(0)}, {1, rc::gen::just<long>(1)}})};
                long nb = *vf::range(0, 5);
                for (long j = 0; j < nb; j++) { long op = *vf::range(0, 2); row.push_back(op); row.push_back(op == 1 ? *rc::gen::weightedOneOf<long>({{1, rc::gen::just<long>(0)}, {3, vf::range(1, 100)}, {1, vf::range(101, 2000)}}) : *vf::range(1, 100)); }
                prog.push_back(row);
            }
            c.S("p" + std::to_string(v)) = prog;
        }
        return c;
    });
}

std::string describe(const Case& c) {
    std::ostringstream o;
    o << "vcpus(os threads)=" << c.cfg[0] << " rounds=" << c.cfg[1] << "\n";
    static const char* bo[] = {"yield", "sleep", "burn"};
    for (long v = 0; v < c.cfg[0]; v++) {
        o << " vcpu" << v << " ws_flags=" << (c.S("vcpu").size() > (size_t)v ? c.S("vcpu")[(size_t)v][0] : 0) << ":";
        for (auto& r : c.S("p" + std::to_string(v))) {
            if (r.size() < 3) continue;
            o << " spawn(" << (r[0] ? "joinable" : "detached") << (r[1] ? ",stealable" : "") << (r[2] ? ",interrupt it" : "") << " {";
            for (size_t i = 3; i + 1 < r.size(); i += 2) o << bo[r[i] % 3] << "(" << r[i + 1] << ");";
            o << "})";
        }
        o << "\n";
    }
    return o.str();
}
}  // namespace

int main(int argc, char** argv) {
    vf::Harness h;
    h.prop = "C05";
    h.gen = gen_case;
    h.run = run_case;
    h.desc = describe;
    h.fork_per_case = true;
    h.persistent_child = true;
    return vf::pbt_main(argc, argv, h);
}
