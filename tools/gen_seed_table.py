#!/usr/bin/env python3
"""Regenerates the seeded-change table in DESIGN.md from seeded/*/meta.json and the first line of each notes.md."""
import glob, json, os, re
rows = []
for d in sorted(glob.glob('/verif/seeded/*/')):
    sid = os.path.basename(d.rstrip('/'))
    try:
        m = json.load(open(d + 'meta.json'))
    except Exception:
        continue
    title = ''
    try:
        for l in open(d + 'notes.md'):
            if l.startswith('#'):
                title = l.lstrip('# ').strip(); break
    except Exception:
        pass
    title = re.sub(r'^C\d\d\s*(/|seed(ed)?)?\s*(change|patch|seed)?\s*\d*\s*(\(BONUS[^)]*\))?\s*[:—-]*\s*', '', title)
    files = []
    try:
        for l in open(d + 'patch.diff'):
            if l.startswith('+++ b/'): files.append(l[6:].strip())
    except Exception:
        pass
    rows.append('| %s | %s | %s | %s | %s |' % (sid, ', '.join('`%s`' % f for f in files), title.replace('|', '/')[:170], m.get('verdict', '?'), (m.get('caught_by') or 'not yet tested').replace('|', '/')))
table = '| seed | touches | change | confirmation | caught by |\n|---|---|---|---|---|\n' + '\n'.join(rows) + '\n'
p = '/verif/DESIGN.md'
s = open(p).read()
a = s.index('<!-- SEED-TABLE-BEGIN -->') + len('<!-- SEED-TABLE-BEGIN -->\n')
b = s.index('<!-- SEED-TABLE-END -->')
s = s[:a] + table + s[b:]
open(p, 'w').write(s)
print(len(rows), 'rows')
