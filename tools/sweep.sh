#!/bin/bash
# sweep.sh [tier] [seed]: run every registered check once, one after the other; summary in build/scratch/sweep.<tier>.<seed>.log
T=${1:-quick}; S=${2:-1}
cd /verif
LOG=build/scratch/sweep.$T.$S.log; : > $LOG
for i in $(seq -w 1 20); do
  id=C$i
  t0=$(date +%s)
  VERIF_SEED=$S ./check $id --tier $T > build/scratch/sweep.$id.out 2>&1; rc=$?
  t1=$(date +%s)
  echo "$id rc=$rc $((t1-t0))s $(grep -E "^$id |^VIOLATION|^KNOWN-FINDING|^note:" build/scratch/sweep.$id.out | tr '\n' ';' | cut -c1-400)" >> $LOG
done
echo done >> $LOG
