// E3: glue for libFuzzer targets: counters, non-trivial fingerprints, samples, stats dump at exit
// (and before a trap), so that the check driver can write evidence.
#pragma once
#include <cstdint>
#include <cstdio>
#include <cstdlib>
#include <cstring>
#include <string>
#include <map>
#include <vector>
#include <unordered_set>
#include <set>

namespace vfz {

struct Stats {
    long evaluations = 0, nontrivial = 0;
    std::map<std::string, long> labels;
    std::unordered_set<uint64_t> fps;
    std::vector<std::string> samples;
};
inline Stats& stats() { static Stats* s = new Stats; return *s; }   // never destroyed: dump() runs at exit

inline uint64_t fnv64(const uint8_t* d, size_t n) {
    uint64_t h = 1469598103934665603ULL;
    for (size_t i = 0; i < n; i++) { h ^= d[i]; h *= 1099511628211ULL; }
    return h;
}
inline std::string hex(const uint8_t* d, size_t n, size_t cap = 96) {
    static const char* hx = "0123456789abcdef";
    std::string s;
    for (size_t i = 0; i < n && i < cap; i++) { s.push_back(hx[d[i] >> 4]); s.push_back(hx[d[i] & 15]); }
    if (n > cap) s += "...";
    return s;
}
inline std::string jesc(const std::string& s) {
    std::string o;
    for (unsigned char c : s) {
        if (c == '"') o += "\\\""; else if (c == '\\') o += "\\\\"; else if (c == '\n') o += "\\n";
        else if (c < 0x20 || c >= 0x7f) { char b[8]; snprintf(b, sizeof b, "\\u%04x", c); o += b; } else o += c;
    }
    return o;
}
inline void dump() {
    const char* p = getenv("VERIF_FUZZ_STATS");
    if (!p) return;
    Stats& s = stats();
    FILE* f = fopen(p, "w");
    if (!f) return;
    fprintf(f, "{\"evaluations\": %ld, \"nontrivial\": %ld, \"labels\": {", s.evaluations, s.nontrivial);
    bool first = true;
    for (auto& kv : s.labels) { fprintf(f, "%s\"%s\": %ld", first ? "" : ", ", jesc(kv.first).c_str(), kv.second); first = false; }
    fprintf(f, "}, \"samples\": [");
    first = true;
    for (auto& t : s.samples) { fprintf(f, "%s\"%s\"", first ? "" : ", ", jesc(t).c_str()); first = false; }
    fprintf(f, "]}\n");
    fclose(f);
    std::string fp = std::string(p) + ".fps";
    f = fopen(fp.c_str(), "wb");
    if (f) { for (uint64_t v : s.fps) fwrite(&v, 8, 1, f); fclose(f); }
}
inline void begin_case() {
    static bool reg = (atexit(dump), true);
    (void)reg;
    stats().evaluations++;
}
inline void label(const std::string& l) { stats().labels[l]++; }
inline void nontrivial(const uint8_t* d, size_t n, const std::string& desc) {
    Stats& s = stats();
    s.nontrivial++;
    if (s.fps.size() < 4000000) s.fps.insert(fnv64(d, n));
    long k = s.nontrivial;
    if (k == 1 || k == 100 || k == 10000 || k == 1000000) s.samples.push_back(desc + " input=" + hex(d, n));
}
[[noreturn]] inline void fail(const std::string& msg) {
    fprintf(stderr, "\nVERIF-ORACLE-FAILURE: %s\n", msg.c_str());
    dump();
    __builtin_trap();
}
inline bool excluded(const char* tag) {
    const char* e = getenv("VERIF_EXCLUDE");
    if (!e) return false;
    std::string s = std::string(",") + e + ",";
    return s.find(std::string(",") + tag + ",") != std::string::npos;
}

}  // namespace vfz
