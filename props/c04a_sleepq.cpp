// C04 (a) — the sleep heap, white box: SleepQueue driven with fake thread objects against a multiset.
// The harness TU includes thread.cpp so that the file-local class is reachable.
#include "pbt.h"
#include "/repo/thread/thread.cpp"

using namespace vf;

namespace {
enum { OP_PUSH = 0, OP_POP_FRONT = 1, OP_POP_KTH = 2 };

Outcome run_case(const Case& c) {
    Outcome out;
    photon::SleepQueue sq;
    std::vector<photon::thread*> all, live;
    std::multiset<uint64_t> model;
    bool nt = false;
    int step = 0;
    auto fail = [&](const std::string& m) { for (auto t : all) delete t; return Outcome::violation("step " + std::to_string(step) + ": " + m); };
    auto check = [&]() -> std::string {
        if (sq.q.size() != model.size()) return "size " + std::to_string(sq.q.size()) + " != model " + std::to_string(model.size());
        if (sq.empty() != model.empty()) return "empty() wrong";
        for (size_t i = 0; i < sq.q.size(); i++) {
            if (sq.q[i]->idx != (int)i) return "back-index of slot " + std::to_string(i) + " is " + std::to_string(sq.q[i]->idx);
            if (i > 0 && sq.q[i]->ts_wakeup < sq.q[(i - 1) / 2]->ts_wakeup) return "heap order broken at slot " + std::to_string(i);
        }
        if (!model.empty() && sq.front()->ts_wakeup != *model.begin()) return "front() deadline " + std::to_string(sq.front()->ts_wakeup) + " is not the minimum " + std::to_string(*model.begin());
        std::multiset<uint64_t> have;
        for (auto t : sq.q) have.insert(t->ts_wakeup);
        if (have != model) return "set of queued deadlines differs from the model";
        for (auto t : all) {
            bool inq = std::find(live.begin(), live.end(), t) != live.end();
            if (!inq && t->idx != -1) return "removed thread keeps idx " + std::to_string(t->idx);
        }
        return "";
    };
    for (auto& r : c.S("op")) {
        step++;
        long op = r.at(0);
        if (op == OP_PUSH) {
            if (live.size() >= 64) continue;
            auto t = new photon::thread;
            t->ts_wakeup = (uint64_t)r.at(1);
            if (r.at(1) < 0) t->ts_wakeup = UINT64_MAX;
            all.push_back(t); live.push_back(t);
            sq.push(t);
            model.insert(t->ts_wakeup);
        } else if (op == OP_POP_FRONT) {
            if (live.empty()) continue;
            auto t = sq.pop_front();
            if (t->ts_wakeup != *model.begin()) return fail("pop_front() returned deadline " + std::to_string(t->ts_wakeup) + ", minimum is " + std::to_string(*model.begin()));
            if (t->idx != -1) return fail("popped thread keeps idx");
            model.erase(model.begin());
            live.erase(std::find(live.begin(), live.end(), t));
        } else {
            if (live.empty()) continue;
            auto t = live[(size_t)r.at(1) % live.size()];
            bool middle = t->idx != 0 && t->idx != (int)sq.q.size() - 1;
            bool tie = model.count(t->ts_wakeup) > 1;
            int rr = sq.pop(t);
            if (rr != 0) return fail("pop(live thread) returned " + std::to_string(rr));
            if (t->idx != -1) return fail("removed thread keeps idx");
            model.erase(model.find(t->ts_wakeup));
            live.erase(std::find(live.begin(), live.end(), t));
            if (middle && sq.q.size() >= 3) { nt = true; out.label(tie ? "middle_removal_with_tie" : "middle_removal"); }
            // popping a thread that is not queued must be a no-op
            if (sq.pop(t) != -1) return fail("pop(thread not in the queue) did not return -1");
        }
        std::string e = check();
        if (!e.empty()) return fail(e);
    }
    // drain: deadlines must come out in non-decreasing order
    uint64_t last = 0;
    while (!sq.empty()) {
        auto t = sq.pop_front();
        if (t->ts_wakeup < last) return fail("drain order not monotone");
        last = t->ts_wakeup;
        model.erase(model.find(t->ts_wakeup));
    }
    if (!model.empty()) return fail("drain lost entries");
    for (auto t : all) delete t;
    out.nontrivial = nt;
    return out;
}

rc::Gen<Case> gen_case(const Options&) {
    return rc::gen::exec([]() {
        Case c;
        c.cfg = {0};
        long n = *range(1, 80);
        long palette = *range(1, 6);    // few distinct deadlines => many ties
        for (long i = 0; i < n; i++) {
            long op = *rc::gen::weightedOneOf<long>({{5, rc::gen::just<long>(OP_PUSH)}, {2, rc::gen::just<long>(OP_POP_FRONT)}, {3, rc::gen::just<long>(OP_POP_KTH)}});
            if (op == OP_PUSH) {
                long d = *rc::gen::weightedOneOf<long>({{6, rc::gen::map(range(0, palette), [](long k) { return k * 100; })}, {2, range(0, 100000)}, {1, rc::gen::just<long>(0)}, {1, rc::gen::just<long>(-1)}});
                c.S("op").push_back({op, d});
            } else if (op == OP_POP_KTH) c.S("op").push_back({op, *range(0, 63)});
            else c.S("op").push_back({op});
        }
        return c;
    });
}
std::string describe(const Case& c) {
    std::ostringstream o;
    for (auto& r : c.S("op")) { if (r[0] == OP_PUSH) o << "push(" << r[1] << ") "; else if (r[0] == OP_POP_FRONT) o << "pop_front "; else o << "pop(#" << r[1] << ") "; }
    return o.str();
}
}  // namespace

int main(int argc, char** argv) {
    Harness h; h.prop = "C04"; h.gen = gen_case; h.run = run_case; h.desc = describe;
    h.fork_per_case = true; h.persistent_child = true;
    return pbt_main(argc, argv, h);
}
