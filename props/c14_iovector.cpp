// C14 — iovector / iovector_view: every operation equals its effect on the flat byte sequence.
// Model: flat byte string (with "unknown" marks for allocator-provided bytes) + the set of
// memory blocks that elements may legally point into.  ASan with exact-size heap blocks per element.
#include "pbt.h"
#include <photon/common/iovector.h>
#include <photon/common/alog.h>

using namespace vf;

namespace {

struct Block { char* p; size_t len; };

struct World {
    std::vector<Block> blocks;          // every block an element may point into
    std::vector<void*> to_free;
    int allocs = 0;
    char* new_block(size_t len, int id) {
        char* p = (char*)malloc(len);   // exact size; len 0 => unique pointer no byte of which is addressable
        for (size_t i = 0; i < len; i++) p[i] = (char)((id * 131 + i * 7 + (i >> 8)) & 0xff);
        blocks.push_back({p, len});
        to_free.push_back(p);
        return p;
    }
    bool inside(const void* ptr, size_t len) const {
        const char* q = (const char*)ptr;
        for (auto& b : blocks)
            if (q >= b.p && q + len <= b.p + b.len) return true;
        return false;
    }
    ~World() { for (void* p : to_free) free(p); }
};

World* g_world;

int rec_alloc(void*, IOAlloc::RangeSize size, void** ptr) {
    // exact-size blocks so that ASan guards every allocator-provided buffer too
    int n = size.max;
    if (n > 4096) n = std::max(size.min, 4096);
    char* p = (char*)malloc(n);
    memset(p, 0xEE, n);
    g_world->blocks.push_back({p, (size_t)n});
    g_world->allocs++;
    *ptr = p;
    return n;
}
int rec_dealloc(void*, void* ptr) { free(ptr); return 0; }

enum { K_VIEW = 0, K_IOVECTOR = 1, K_HEAP = 2 };
enum {
    OP_SUM, OP_SHRINK_TO, OP_TRUNCATE, OP_XF, OP_XF_BUF, OP_XF_VIEW, OP_XF_IOV, OP_XB, OP_XB_BUF, OP_XB_VIEW, OP_XB_IOV,
    OP_XF_CONT, OP_XB_CONT, OP_SLICE, OP_CP_TO_BUF, OP_CP_FROM_BUF, OP_CP_TO_VIEW, OP_CP_FROM_VIEW, OP_PIPE_TO_BUF,
    OP_PIPE_TO_VIEW, OP_PIPE_FROM_VIEW, OP_PUSH_BACK, OP_PUSH_FRONT, OP_POP_FRONT, OP_POP_BACK, OP_SHRINK_LESS, NOPS
};
const char* OPN[] = {"sum", "shrink_to", "truncate", "extract_front", "extract_front(buf)", "extract_front(view)",
                     "extract_front(iovector)", "extract_back", "extract_back(buf)", "extract_back(view)", "extract_back(iovector)",
                     "extract_front_continuous", "extract_back_continuous", "slice", "memcpy_to(buf)", "memcpy_from(buf)",
                     "memcpy_to(view)", "memcpy_from(view)", "pipe_to(buf)", "pipe_to(view)", "pipe_from(view)", "push_back",
                     "push_front", "pop_front", "pop_back", "shrink_less_than"};

struct Subject {
    int kind;
    // view
    iovec* arr = nullptr; int arr_n = 0;
    iovector_view v;
    // iovector
    iovector* iv = nullptr;
    IOVector* stackv = nullptr;
    iovector_view view() const { return kind == K_VIEW ? v : iv->view(); }
};

#define FAIL(msg) do { std::ostringstream _o; _o << "step " << step << " " << OPN[op] << ": " << msg; return Outcome::violation(_o.str()); } while (0)

std::vector<int> read_view(const iovector_view& v) {
    std::vector<int> out;
    for (int i = 0; i < v.iovcnt; i++)
        for (size_t j = 0; j < v.iov[i].iov_len; j++) out.push_back((unsigned char)((char*)v.iov[i].iov_base)[j]);
    return out;
}

bool match(const std::vector<int>& model, const std::vector<int>& actual, std::string* why) {
    if (model.size() != actual.size()) { *why = "vector denotes " + std::to_string(actual.size()) + " bytes, model " + std::to_string(model.size()); return false; }
    for (size_t i = 0; i < model.size(); i++)
        if (model[i] >= 0 && model[i] != actual[i]) { *why = "byte " + std::to_string(i) + " differs: " + std::to_string(actual[i]) + " vs model " + std::to_string(model[i]); return false; }
    return true;
}

}  // namespace

// cfg: [kind, capacity(heap kind), reserve_front]
// el: rows [len] initial elements;  op: rows [op, k, delta, a...]
static Outcome run_case(const Case& c) {
    static bool quiet = (set_log_output_level(ALOG_AUDIT + 1), set_log_output(log_output_null), true);
    (void)quiet;
    Outcome out;
    World W; g_world = &W;
    int kind = (int)c.cfg.at(0);
    int cap = (int)c.cfg.at(1), resv = (int)c.cfg.at(2);
    auto& els = c.S("el");
    Subject S; S.kind = kind;
    std::vector<int> model;
    int nel = (int)els.size();
    int blk_id = 0;
    std::vector<iovec> init;
    for (auto& r : els) {
        size_t len = (size_t)r.at(0);
        char* p = W.new_block(len, blk_id++);
        init.push_back({p, len});
        for (size_t i = 0; i < len; i++) model.push_back((unsigned char)p[i]);
    }
    IOAlloc rec(IOAlloc::Allocator{nullptr, &rec_alloc}, IOAlloc::Deallocator{nullptr, &rec_dealloc});
    std::unique_ptr<IOVector> stackv;
    iovector* heapv = nullptr;
    if (kind == K_VIEW) {
        S.arr_n = nel;
        S.arr = (iovec*)calloc(nel + 1, sizeof(iovec));   // one slack entry: the copy iterator loads iov[0] before looking at the count (DESIGN C14 Pre)
        for (int i = 0; i < nel; i++) S.arr[i] = init[i];
        S.v = iovector_view(S.arr, nel);
    } else if (kind == K_IOVECTOR) {
        if (nel + 4 >= 32) { out.status = Outcome::INCONCLUSIVE; out.msg = "too many elements for IOVector"; return out; }
        stackv.reset(new IOVector(rec));
        for (auto& e : init) stackv->push_back(e);
        S.iv = stackv.get();
        cap = 32;
    } else {
        if (resv + nel > cap) { out.status = Outcome::INCONCLUSIVE; out.msg = "capacity"; return out; }
        heapv = new_iovector((uint16_t)cap, (uint16_t)resv);
        *heapv->get_allocator() = rec;      // new_iovector leaves the allocator unconstructed
        for (auto& e : init) heapv->push_back(e);
        S.iv = heapv;
    }
    bool any_zero = false, any_boundary = false, any_span = false;
    int step = 0;
    std::set<int> ops_done;
    auto cleanup = [&]() { if (S.arr) free(S.arr); if (heapv) { heapv->clear(); free(heapv); } if (stackv) stackv->clear(); };
    struct Guard { std::function<void()> f; ~Guard() { f(); } } guard{cleanup};

    for (auto& r : c.S("op")) {
        int op = (int)r.at(0);
        long k = r.at(1), delta = r.at(2);
        auto arg = [&](size_t i) -> long { return i < r.size() ? r[i] : 0; };
        iovector_view cur = S.view();
        std::vector<size_t> sizes;
        for (int i = 0; i < cur.iovcnt; i++) sizes.push_back(cur.iov[i].iov_len);
        size_t total = model.size();
        bool from_back = (op == OP_XB || op == OP_XB_BUF || op == OP_XB_VIEW || op == OP_XB_IOV || op == OP_XB_CONT);
        // resolve the byte count: boundary of the k-th element (from the relevant side) + delta
        long n;
        if (k > (long)sizes.size()) n = (long)total + (k - (long)sizes.size()) * 3 + delta;
        else {
            n = delta;
            for (long i = 0; i < k; i++) n += (long)(from_back ? sizes[sizes.size() - 1 - i] : sizes[i]);
        }
        if (n < 0) n = 0;
        size_t N = (size_t)n;
        size_t eff = std::min(N, total);
        // class labels
        {
            size_t acc = 0; int spanned = 0; bool onb = false, zero_touch = false;
            for (size_t i = 0; i < sizes.size(); i++) {
                size_t s = from_back ? sizes[sizes.size() - 1 - i] : sizes[i];
                if (acc < eff || (s == 0 && acc <= eff)) { spanned++; if (s == 0) zero_touch = true; }
                acc += s;
                if (acc == eff && eff > 0) onb = true;
            }
            if (onb) any_boundary = true;
            if (spanned >= 2) any_span = true;
            if (zero_touch) any_zero = true;
        }
        bool is_vec = kind != K_VIEW;
        int alloc_left = is_vec ? cap - W.allocs - 1 : 0;
        std::string why;
        step++;
        ops_done.insert(op);
        auto check_state = [&]() -> bool {
            iovector_view now = S.view();
            for (int i = 0; i < now.iovcnt; i++)
                if (!W.inside(now.iov[i].iov_base, now.iov[i].iov_len)) { why = "element " + std::to_string(i) + " points outside every buffer"; return false; }
            return match(model, read_view(now), &why);
        };
        // helpers to build destination / source shapes from the row tail (lens start at index `from`)
        auto make_shape = [&](size_t from, std::vector<iovec>* v, bool fill) {
            for (size_t i = from; i < r.size(); i++) {
                size_t len = (size_t)r[i];
                char* p = W.new_block(len, 100 + (int)i + step * 16);
                if (!fill) memset(p, 0xA5, len);
                v->push_back({p, len});
            }
            if (v->empty()) v->push_back({W.new_block(0, 99), 0});   // array with room for one entry
        };
        switch (op) {
        case OP_SUM: {
            size_t s = is_vec ? S.iv->sum() : S.v.sum();
            if (s != total) FAIL("sum() = " << s << ", flat length " << total);
            break;
        }
        case OP_SHRINK_TO: {
            size_t ret = is_vec ? S.iv->shrink_to(N) : S.v.shrink_to(N);
            if (ret != eff) FAIL("shrink_to(" << N << ") returned " << ret << ", expected " << eff);
            model.resize(eff);
            break;
        }
        case OP_SHRINK_LESS: {
            if (is_vec) break;
            // decreases iovcnt so that the remaining elements are the shortest prefix covering `N` bytes; contents untouched.
            size_t before = total;
            size_t ret = S.v.shrink_less_than(N);
            // returns the surplus of the last kept element; new sum - ret == min(N,total) when N>0 and N<=total
            size_t now = S.v.sum();
            if (N > 0 && N <= before) {
                if (now - ret != N) FAIL("shrink_less_than(" << N << "): new sum " << now << " - surplus " << ret << " != " << N);
                model.resize(now);
            } else if (N == 0) {
                if (S.v.iovcnt != 0) FAIL("shrink_less_than(0) left elements");
                model.clear();
            } else {
                if (now != before || ret != 0) FAIL("shrink_less_than beyond the content changed the vector");
            }
            break;
        }
        case OP_TRUNCATE: {
            if (!is_vec) break;
            if (N > total && (alloc_left < 2 || N - total > 3000)) break;
            size_t ret = S.iv->truncate(N);
            if (N <= total) { if (ret != N) FAIL("truncate(" << N << ") returned " << ret); model.resize(N); }
            else {
                if (ret > N || ret < total) FAIL("truncate(" << N << ") returned " << ret);
                if (ret != N && S.iv->back_free_iovcnt() > 0) FAIL("truncate(" << N << ") grew only to " << ret << " with free slots left");
                model.resize(ret, -1);
            }
            break;
        }
        case OP_XF: case OP_XB: {
            size_t ret = op == OP_XF ? (is_vec ? S.iv->extract_front(N) : S.v.extract_front(N))
                                     : (is_vec ? S.iv->extract_back(N) : S.v.extract_back(N));
            if (ret != eff) FAIL("returned " << ret << ", expected " << eff);
            if (op == OP_XF) model.erase(model.begin(), model.begin() + eff); else model.resize(total - eff);
            break;
        }
        case OP_XF_BUF: case OP_XB_BUF: {
            char* buf = W.new_block(N, 50 + step);
            memset(buf, 0x5A, N);
            size_t ret = op == OP_XF_BUF ? (is_vec ? S.iv->extract_front(N, buf) : S.v.extract_front(N, buf))
                                         : (is_vec ? S.iv->extract_back(N, buf) : S.v.extract_back(N, buf));
            if (ret != eff) FAIL("returned " << ret << ", expected " << eff);
            std::vector<int> exp = op == OP_XF_BUF ? std::vector<int>(model.begin(), model.begin() + eff)
                                                   : std::vector<int>(model.end() - eff, model.end());
            auto cmp_at = [&](size_t off) {
                for (size_t i = 0; i < N; i++) {
                    int got = (unsigned char)buf[i];
                    if (i >= off && i < off + eff) { if (exp[i - off] >= 0 && got != exp[i - off]) return false; }
                    else if (got != 0x5A) return false;
                }
                return true;
            };
            // a short extract_back leaves its bytes at the tail of the buffer (the copy runs backwards); both placements are accepted
            bool ok = cmp_at(0) || (op == OP_XB_BUF && cmp_at(N - eff));
            if (!ok) FAIL("bytes copied out differ from the flat model (or bytes outside the copied range were written)");
            if (op == OP_XF_BUF) model.erase(model.begin(), model.begin() + eff); else model.resize(total - eff);
            break;
        }
        case OP_XF_VIEW: case OP_XB_VIEW: case OP_XF_IOV: case OP_XB_IOV: {
            bool front = (op == OP_XF_VIEW || op == OP_XF_IOV);
            bool to_iov = (op == OP_XF_IOV || op == OP_XB_IOV);
            if (to_iov && !is_vec) break;
            long ocap = arg(3);     // 0 => let the iovector allocate the array (iovector only) ; else capacity
            int cnt = (int)sizes.size();
            // how many elements the extraction touches
            int touched = 0; { size_t acc = 0; for (int i = 0; i < cnt && acc < eff; i++) { acc += front ? sizes[i] : sizes[cnt - 1 - i]; touched++; } }
            // zero-length elements in front of the boundary are moved too; count conservatively
            std::vector<iovec> oarr;
            iovector_view ov;
            std::unique_ptr<IOVector> oiv;
            ssize_t ret;
            if (to_iov) {
                oiv.reset(new IOVector(rec));
                if (cnt > 28) break;
                ret = front ? S.iv->extract_front(N, oiv.get()) : S.iv->extract_back(N, oiv.get());
                ov = oiv->view();
            } else {
                if (ocap == 0 && (!is_vec || alloc_left < 2)) ocap = cnt + 1;
                if (ocap > 0) { oarr.resize(ocap); ov = iovector_view(oarr.data(), (int)ocap); } else ov = iovector_view(nullptr, 0);
                if (is_vec) ret = front ? S.iv->extract_front(N, &ov) : S.iv->extract_back(N, &ov);
                else ret = front ? S.v.extract_front(N, &ov) : S.v.extract_back(N, &ov);
            }
            if (ret < 0) {
                // documented: -1 when the output array has not enough space.  Legal only if the
                // output capacity is smaller than the number of elements the request can touch.
                if (to_iov || ocap == 0 || ocap >= cnt) FAIL("returned -1 although the output array has room for every element");
                out.label("neg1_output_too_small");
                out.nontrivial = true;
                return out;     // state after -1 is unspecified: end of case
            }
            if (N == 0 && is_vec) { if (ret != 0) FAIL("returned " << ret << " for 0 bytes"); break; }
            if ((size_t)ret != eff) FAIL("returned " << ret << ", expected " << eff);
            std::vector<int> exp = front ? std::vector<int>(model.begin(), model.begin() + eff) : std::vector<int>(model.end() - eff, model.end());
            for (int i = 0; i < ov.iovcnt; i++) if (!W.inside(ov.iov[i].iov_base, ov.iov[i].iov_len)) FAIL("extracted element points outside every buffer");
            if (!match(exp, read_view(ov), &why)) FAIL("extracted sub-vector: " << why);
            if (front) model.erase(model.begin(), model.begin() + eff); else model.resize(total - eff);
            if (oiv) oiv->clear();
            break;
        }
        case OP_XF_CONT: case OP_XB_CONT: {
            bool front = op == OP_XF_CONT;
            if (is_vec && alloc_left < 2) break;
            if (N == 0 && total == 0) break;      // nothing to observe
            void* p = front ? (is_vec ? S.iv->extract_front_continuous(N) : S.v.extract_front_continuous(N))
                            : (is_vec ? S.iv->extract_back_continuous(N) : S.v.extract_back_continuous(N));
            bool must_succeed, must_fail;
            if (is_vec) { must_succeed = N <= total; must_fail = N > total; }
            else {
                size_t edge = sizes.empty() ? 0 : (front ? sizes.front() : sizes.back());
                must_succeed = !sizes.empty() && N <= edge; must_fail = !must_succeed;
            }
            if (must_fail) {
                if (p) FAIL("returned a pointer although only " << total << " bytes are available for " << N);
            } else if (must_succeed) {
                if (!p) FAIL("returned nullptr although " << N << " <= available");
                if (!W.inside(p, N)) FAIL("returned pointer outside every buffer");
                for (size_t i = 0; i < N; i++) {
                    int e = front ? model[i] : model[total - N + i];
                    if (e >= 0 && e != (unsigned char)((char*)p)[i]) FAIL("contiguous bytes differ from the flat model at " << i);
                }
                if (front) model.erase(model.begin(), model.begin() + N); else model.resize(total - N);
            }
            break;
        }
        case OP_SLICE: {
            // args: k/delta => count ; arg3,arg4 => offset as (k2, delta2) ; arg5 => output capacity (0 => allocate, iovector only)
            long k2 = arg(3), d2 = arg(4), ocap = arg(5);
            long off = d2;
            if (k2 > (long)sizes.size()) off += (long)total + (k2 - (long)sizes.size()) * 2;
            else for (long i = 0; i < k2; i++) off += (long)sizes[i];
            if (off < 0) off = 0;
            int cnt = (int)sizes.size();
            if (ocap == 0 && (!is_vec || alloc_left < 2 || cnt == 0)) ocap = cnt + 1;
            std::vector<iovec> oarr(std::max<long>(ocap, 1));
            iovector_view ov = ocap > 0 ? iovector_view(oarr.data(), (int)ocap) : iovector_view(nullptr, 0);
            ssize_t ret = is_vec ? S.iv->slice(N, off, &ov) : S.v.slice(N, off, &ov);
            size_t avail = (size_t)off < total ? total - off : 0;
            size_t expn = std::min(N, avail);
            if (ret < 0) FAIL("slice returned " << ret);
            if ((size_t)ret > expn) FAIL("slice returned " << ret << " > " << expn);
            if ((size_t)ret < expn && (ocap == 0 || ocap >= cnt)) FAIL("slice(" << N << "," << off << ") returned " << ret << ", expected " << expn);
            if (N > 0) {
                std::vector<int> exp(model.begin() + std::min<size_t>(off, total), model.begin() + std::min<size_t>(off, total) + ret);
                for (int i = 0; i < ov.iovcnt; i++) if (!W.inside(ov.iov[i].iov_base, ov.iov[i].iov_len)) FAIL("slice element outside every buffer");
                if (!match(exp, read_view(ov), &why)) FAIL("slice content: " << why);
            }
            if ((size_t)ret < expn) out.label("slice_truncated_by_capacity");
            break;
        }
        case OP_CP_TO_BUF: case OP_PIPE_TO_BUF: {
            char* buf = W.new_block(N, 60 + step);
            memset(buf, 0x5A, N);
            size_t ret = op == OP_CP_TO_BUF ? (is_vec ? S.iv->memcpy_to(buf, N) : S.v.memcpy_to(buf, N))
                                            : (is_vec ? S.iv->pipe_to(buf, N) : S.v.pipe_to(buf, N));
            if (ret != eff) FAIL("returned " << ret << ", expected " << eff);
            for (size_t i = 0; i < N; i++) {
                int got = (unsigned char)buf[i];
                if (i < eff) { if (model[i] >= 0 && got != model[i]) FAIL("copied byte " << i << " differs"); }
                else if (got != 0x5A) FAIL("wrote beyond the copied range");
            }
            if (op == OP_PIPE_TO_BUF) model.erase(model.begin(), model.begin() + eff);
            break;
        }
        case OP_CP_FROM_BUF: {
            char* buf = W.new_block(N, 70 + step);
            size_t ret = is_vec ? S.iv->memcpy_from(buf, N) : S.v.memcpy_from(buf, N);
            if (ret != eff) FAIL("returned " << ret << ", expected " << eff);
            for (size_t i = 0; i < eff; i++) model[i] = (unsigned char)buf[i];
            break;
        }
        case OP_CP_TO_VIEW: case OP_PIPE_TO_VIEW: {
            // args: size = N ; row tail from index 3: destination element lengths
            std::vector<iovec> d; make_shape(3, &d, false);
            size_t dcap = 0; for (auto& e : d) dcap += e.iov_len;
            int dn = (int)d.size(); if (dn == 1 && d[0].iov_len == 0 && r.size() <= 3) dn = 0;
            iovector_view dv(d.data(), dn);
            size_t size = arg(1) < 0 ? SIZE_MAX : N;
            size_t expn = std::min(std::min(size, total), dcap);
            size_t ret = op == OP_CP_TO_VIEW ? (is_vec ? S.iv->memcpy_to(&dv, size) : S.v.memcpy_to(&dv, size))
                                             : (is_vec ? S.iv->pipe_to(&dv, size) : S.v.pipe_to(&dv, size));
            if (ret != expn) FAIL("returned " << ret << ", expected " << expn);
            std::vector<int> got = read_view(iovector_view(d.data(), dn));
            for (size_t i = 0; i < got.size(); i++) {
                if (i < expn) { if (model[i] >= 0 && got[i] != model[i]) FAIL("destination byte " << i << " differs"); }
                else if (got[i] != 0xA5) FAIL("wrote beyond the copied range in the destination");
            }
            if (op == OP_PIPE_TO_VIEW) model.erase(model.begin(), model.begin() + expn);
            break;
        }
        case OP_CP_FROM_VIEW: case OP_PIPE_FROM_VIEW: {
            std::vector<iovec> s; make_shape(3, &s, true);
            int sn = (int)s.size(); if (sn == 1 && s[0].iov_len == 0 && r.size() <= 3) sn = 0;
            iovector_view sv(s.data(), sn);
            std::vector<int> src = read_view(sv);
            size_t size = arg(1) < 0 ? SIZE_MAX : N;
            size_t expn = std::min(std::min(size, total), src.size());
            size_t ret = op == OP_CP_FROM_VIEW ? (is_vec ? S.iv->memcpy_from(&sv, size) : S.v.memcpy_from(&sv, size))
                                               : (is_vec ? S.iv->pipe_from(&sv, size) : S.v.pipe_from(&sv, size));
            if (ret != expn) FAIL("returned " << ret << ", expected " << expn);
            for (size_t i = 0; i < expn; i++) model[i] = src[i];
            if (op == OP_PIPE_FROM_VIEW) {
                std::vector<int> rest(src.begin() + expn, src.end());
                if (!match(rest, read_view(sv), &why)) FAIL("source after pipe_from: " << why);
            }
            break;
        }
        case OP_PUSH_BACK: case OP_PUSH_FRONT: {
            if (!is_vec) break;
            size_t len = (size_t)std::max<long>(0, arg(3));
            bool room = op == OP_PUSH_BACK ? S.iv->back_free_iovcnt() > 0 : S.iv->front_free_iovcnt() > 0;
            if (!room) break;       // precondition (asserted in debug builds)
            char* p = W.new_block(len, 200 + step);
            size_t ret = op == OP_PUSH_BACK ? S.iv->push_back(p, len) : S.iv->push_front(p, len);
            if (ret != len) FAIL("returned " << ret);
            std::vector<int> add; for (size_t i = 0; i < len; i++) add.push_back((unsigned char)p[i]);
            if (op == OP_PUSH_BACK) model.insert(model.end(), add.begin(), add.end()); else model.insert(model.begin(), add.begin(), add.end());
            break;
        }
        case OP_POP_FRONT: case OP_POP_BACK: {
            if (sizes.empty()) break;   // precondition
            size_t len = op == OP_POP_FRONT ? sizes.front() : sizes.back();
            if (is_vec) { size_t ret = op == OP_POP_FRONT ? S.iv->pop_front() : S.iv->pop_back(); if (ret != len) FAIL("returned " << ret << ", expected " << len); }
            else { if (op == OP_POP_FRONT) S.v.pop_front(); else S.v.pop_back(); }
            if (op == OP_POP_FRONT) model.erase(model.begin(), model.begin() + len); else model.resize(total - len);
            break;
        }
        }
        if (!check_state()) FAIL("after the operation: " << why);
    }
    out.nontrivial = any_boundary || any_span || any_zero;
    if (any_boundary) out.label("count_on_element_boundary");
    if (any_span) out.label("spans_2+_elements");
    if (any_zero) out.label("touches_zero_length_element");
    out.label(kind == K_VIEW ? "kind:view" : kind == K_IOVECTOR ? "kind:IOVector" : "kind:new_iovector");
    for (int o : ops_done) out.label(std::string("op:") + OPN[o]);
    return out;
}

static rc::Gen<Case> gen_case(const Options&) {
    return rc::gen::exec([]() {
        Case c;
        long kind = *range(0, 2);
        long nel = *rc::gen::weightedOneOf<long>({{1, rc::gen::just<long>(0)}, {6, range(1, 6)}, {2, range(7, 20)}});
        long cap = nel + *range(1, 8), resv = *range(0, 3);
        if (kind == K_HEAP) cap += resv;
        c.cfg = {kind, cap, resv};
        auto& el = c.S("el");
        for (long i = 0; i < nel; i++) {
            long len = *rc::gen::weightedOneOf<long>({{2, rc::gen::just<long>(0)}, {6, range(1, 8)}, {2, range(9, 64)}, {1, range(65, 600)}});
            el.push_back({len});
        }
        long nops = *range(1, 10);
        auto& ops = c.S("op");
        for (long i = 0; i < nops; i++) {
            long op = *range(0, NOPS - 1);
            long k = *rc::gen::weightedOneOf<long>({{5, range(0, 4)}, {2, range(5, 12)}, {2, range(21, 24)}});
            long delta = *rc::gen::weightedOneOf<long>({{4, rc::gen::just<long>(0)}, {2, rc::gen::just<long>(1)}, {2, rc::gen::just<long>(-1)}, {2, range(2, 9)}});
            std::vector<long> row = {op, k, delta};
            switch (op) {
            case OP_XF_VIEW: case OP_XB_VIEW:
                row.push_back(*rc::gen::weightedOneOf<long>({{2, rc::gen::just<long>(0)}, {3, range(1, 3)}, {4, range(20, 24)}}));
                break;
            case OP_SLICE:
                row.push_back(*range(0, 5)); row.push_back(*range(-1, 3));
                row.push_back(*rc::gen::weightedOneOf<long>({{2, rc::gen::just<long>(0)}, {2, range(1, 3)}, {4, range(20, 24)}}));
                break;
            case OP_CP_TO_VIEW: case OP_CP_FROM_VIEW: case OP_PIPE_TO_VIEW: case OP_PIPE_FROM_VIEW: {
                long n = *range(0, 5);
                for (long j = 0; j < n; j++) row.push_back(*rc::gen::weightedOneOf<long>({{2, rc::gen::just<long>(0)}, {6, range(1, 9)}, {2, range(10, 200)}}));
                if (*range(0, 3) == 0) row[1] = -1;   // size = SIZE_MAX (default argument)
                break;
            }
            case OP_PUSH_BACK: case OP_PUSH_FRONT:
                row.push_back(*range(0, 12));
                break;
            default: break;
            }
            ops.push_back(row);
        }
        return c;
    });
}

static std::string describe(const Case& c) {
    std::ostringstream o;
    static const char* kn[] = {"iovector_view", "IOVector", "new_iovector"};
    o << kn[c.cfg[0]] << " elements=[";
    for (auto& r : c.S("el")) o << r[0] << " ";
    o << "]\n";
    for (auto& r : c.S("op")) {
        o << "  " << OPN[r[0]] << "(boundary k=" << r[1] << " delta=" << r[2];
        for (size_t i = 3; i < r.size(); i++) o << " " << r[i];
        o << ")\n";
    }
    return o.str();
}

int main(int argc, char** argv) {
    Harness h;
    h.prop = "C14";
    h.gen = gen_case;
    h.run = run_case;
    h.desc = describe;
    h.fork_per_case = true;
    h.persistent_child = true;     // the harness keeps no state between cases
    return pbt_main(argc, argv, h);
}
