// C01 — mutex ownership and exclusion (plain, contending, sequential, recursive); spinlock family.
#include "lab_common.h"

using namespace labc;

namespace {

enum { OP_LOCK_SECTION = 10, OP_TRY_SECTION = 11,          // photon actors
       OP_SPIN_SECTION = 20, OP_SPIN_TRY = 21 };           // OS-thread participants (spinlock family)
enum { V_MUTEX = 0, V_CONTENDING = 1, V_SEQ = 2, V_RECURSIVE = 3, V_SPIN = 10, V_TICKET = 11, V_QSPIN = 12 };

struct PMutex : public photon::mutex {
    using photon::mutex::mutex;
    photon::thread* get_owner() { return owner.load(); }
    bool has_waiters() { return q.th != nullptr; }
};
struct PSeq : public photon::seq_mutex {
    int lock(photon::Timeout t = {}) { return mutex::lock(t); }
    int try_lock() { return mutex::try_lock(); }
    void unlock() { mutex::unlock(); }
    bool locked() { return mutex::locked(); }
    photon::thread* get_owner() { return owner.load(); }
    bool has_waiters() { return q.th != nullptr; }
};
struct PRec : public photon::recursive_mutex {
    using photon::recursive_mutex::recursive_mutex;
    photon::thread* get_owner() { return owner.load(); }
    bool has_waiters() { return q.th != nullptr; }
    bool locked() { return mutex::locked(); }
};

struct MutexBox {       // uniform face over the variants
    int variant;
    std::unique_ptr<PMutex> m; std::unique_ptr<PSeq> s; std::unique_ptr<PRec> r;
    int lock(photon::Timeout t) { return m ? m->lock(t) : s ? s->lock(t) : r->lock(t); }
    int try_lock() { return m ? m->try_lock() : s ? s->try_lock() : r->try_lock(); }
    void unlock() { if (m) m->unlock(); else if (s) s->unlock(); else r->unlock(); }
    bool locked() { return m ? m->locked() : s ? s->locked() : r->locked(); }
    photon::thread* owner() { return m ? m->get_owner() : s ? s->get_owner() : r->get_owner(); }
    bool has_waiters() { return m ? m->has_waiters() : s ? s->has_waiters() : r->has_waiters(); }
};

struct H {
    Common C;
    MutexBox mb;
    int variant = 0;
    // occupancy
    int inside = 0; int holder = -1; int depth = 0;
    int last_unlock_vcpu = -1;
    bool nt = false;
    std::set<std::string> labels;
    // spinlock family
    photon::spinlock sl; photon::ticket_spinlock tl; photon::qspinlock ql;
    int sp_inside = 0; long sp_counter = 0, sp_expected = 0;

    int cur_vcpu_index() { auto v = photon::get_vcpu(); for (int i = 0; i < (int)C.L.vcpus.size(); i++) if (C.L.vcpus[i] == v) return i; return -1; }

    void section(int id, const std::vector<long>& r, bool use_try) {
        auto& ctl = C.L.ctl;
        long tmo = r.size() > 1 ? r[1] : -1;          // -1: untimed
        long body = r.size() > 2 ? r[2] : 0;          // 0 nothing, 1 yield, 2 sleep
        long barg = r.size() > 3 ? r[3] : 0;
        long nest = (variant == V_RECURSIVE && r.size() > 4) ? r[4] % 3 : 0;
        bool was_held_by_other = mb.owner() != nullptr && mb.owner() != photon::CURRENT;
        int ints_before = C.st[id].ints_received;
        uint64_t t_before = photon::now;
        C.st[id].phase = use_try ? "try_lock" : (tmo < 0 ? "lock()" : "lock(timeout)");
        C.st[id].phase_arg = tmo;
        int ret;
        if (use_try) ret = mb.try_lock();
        else ret = mb.lock(tmo < 0 ? photon::Timeout() : photon::Timeout((uint64_t)tmo));
        int en = errno;
        bool mine = mb.owner() == photon::CURRENT;
        if ((ret == 0) != mine) {
            std::ostringstream o;
            o << "actor" << id << ": " << (use_try ? "try_lock" : "lock") << " returned " << ret << " (errno " << en << ") but the caller is "
              << (mine ? "" : "NOT ") << "the owner";
            ctl.violation(o.str());
        }
        if (ret != 0) {
            if (!use_try) {
                // a failure needs a cause: a finite timeout, or an interrupt issued to this actor at some point
                bool timed = tmo >= 0;
                if (!timed && C.st[id].ints_received == 0)
                    ctl.violation("actor" + std::to_string(id) + ": untimed lock() failed (errno " + std::to_string(en) + ") although nobody ever interrupted it");
                if (en == ETIMEDOUT && timed && was_held_by_other) { nt = true; labels.insert("timeout_while_queued"); }
                if (en != ETIMEDOUT && C.st[id].ints_received > ints_before) { nt = true; labels.insert("interrupted_while_acquiring"); }
                (void)t_before;
            }
            labels.insert(use_try ? "try_lock_failed" : "lock_failed");
            return;
        }
        // ---- inside the critical section
        if (inside != 0 && holder != id) {
            ctl.violation("actor" + std::to_string(id) + " entered the critical section while actor" + std::to_string(holder) + " is inside");
        }
        if (was_held_by_other && !use_try) {
            labels.insert("acquired_after_waiting");
            int v = cur_vcpu_index();
            if (last_unlock_vcpu >= 0 && v != last_unlock_vcpu) { nt = true; labels.insert("handoff_crossed_vcpus"); }
        }
        inside++; holder = id; depth++;
        for (long k = 0; k < nest; k++) {                     // recursive re-acquisition by the owner must succeed at once
            int r2 = (k & 1) ? mb.try_lock() : mb.lock(photon::Timeout());
            if (r2 != 0) ctl.violation("recursive_mutex: owner failed to re-acquire");
        }
        C.st[id].phase = "inside critical section";
        if (body == 1) photon::thread_yield();
        else if (body == 2) photon::thread_usleep((uint64_t)barg);
        if (holder != id || inside != 1) ctl.violation("occupancy changed while actor" + std::to_string(id) + " was inside (holder=" + std::to_string(holder) + ", inside=" + std::to_string(inside) + ")");
        if (mb.owner() != photon::CURRENT) ctl.violation("owner changed while actor" + std::to_string(id) + " held the mutex");
        for (long k = 0; k < nest; k++) mb.unlock();
        inside--; depth--; holder = -1;
        last_unlock_vcpu = cur_vcpu_index();
        C.st[id].phase = "unlock";
        mb.unlock();
    }
    void run_op(int id, const std::vector<long>& r) {
        if (r[0] == OP_LOCK_SECTION) section(id, r, false);
        else if (r[0] == OP_TRY_SECTION) section(id, r, true);
    }
    void run_os_op(int k, const std::vector<long>& r) {
        auto& ctl = C.L.ctl;
        bool use_try = r[0] == OP_SPIN_TRY;
        long reps = r.size() > 1 ? std::max<long>(1, r[1] % 4 + 1) : 1;
        for (long i = 0; i < reps; i++) {
            int ret = 0;
            switch (variant) {
            case V_SPIN: ret = use_try ? sl.try_lock() : sl.lock(); break;
            case V_TICKET: ret = tl.lock(); break;                 // try_lock is declared but not defined upstream
            default: ret = use_try ? ql.try_lock() : ql.lock(); break;
            }
            if (ret != 0) { labels.insert("spin_try_failed"); continue; }
            if (sp_inside != 0) ctl.violation("two OS threads inside a region guarded by the " + std::string(variant == V_SPIN ? "spinlock" : variant == V_TICKET ? "ticket_spinlock" : "qspinlock"));
            sp_inside = 1;
            long v = sp_counter;
            PHOTON_VERIF_SP(PHOTON_VERIF_SP_ATOMIC, nullptr);      // a preemption opportunity inside the section
            sp_counter = v + 1;
            sp_expected++;
            sp_inside = 0;
            switch (variant) { case V_SPIN: sl.unlock(); break; case V_TICKET: tl.unlock(); break; default: ql.unlock(); break; }
        }
        (void)k;
    }
};

Outcome run_case(const Case& c) {
    H h;
    h.variant = (int)c.cfg.at(5);
    long retries = c.cfg.size() > 6 ? c.cfg[6] : 100;
    h.mb.variant = h.variant;
    switch (h.variant) {
    case V_MUTEX: h.mb.m.reset(new PMutex((uint16_t)retries, false)); break;
    case V_CONTENDING: h.mb.m.reset(new PMutex((uint16_t)retries, true)); break;
    case V_SEQ: h.mb.s.reset(new PSeq()); break;
    case V_RECURSIVE: h.mb.r.reset(new PRec((uint16_t)retries, false)); break;
    default: h.mb.m.reset(new PMutex()); break;
    }
    h.C.setup(c, [&](int id, const std::vector<long>& r) { h.run_op(id, r); }, [&](int k, const std::vector<long>& r) { h.run_os_op(k, r); });
    auto& ctl = h.C.L.ctl;
    ctl.on_quiescence = [&]() {
        std::ostringstream o;
        o << "quiescence with actors still blocked:" << h.C.blocked_report() << "; mutex locked=" << h.mb.locked() << " queued=" << h.mb.has_waiters()
          << " harness holder=" << h.holder;
        ctl.violation(o.str());
    };
    h.C.L.run();
    Outcome& out = ctl.out;
    if (h.variant < V_SPIN) {
        if (h.mb.locked()) return Outcome::violation("mutex still locked after every actor finished");
        if (h.mb.has_waiters()) return Outcome::violation("wait queue not empty after every actor finished");
    } else {
        if (h.sp_counter != h.sp_expected) return Outcome::violation("non-atomic counter inside the spin-locked region lost updates");
        if (h.C.L.os_threads.size() >= 2 && ctl.preemptions + ctl.busy_handoffs > 0) h.nt = true;
    }
    out.nontrivial = h.nt;
    for (auto& l : h.labels) out.label(l);
    static const char* vn[] = {"mutex", "mutex_contending", "seq_mutex", "recursive_mutex"};
    out.label(std::string("variant:") + (h.variant < 4 ? vn[h.variant] : h.variant == V_SPIN ? "spinlock" : h.variant == V_TICKET ? "ticket_spinlock" : "qspinlock"));
    h.C.L.stats_labels(out);
    return out;
}

rc::Gen<Case> gen_case(const vf::Options&) {
    return rc::gen::exec([]() {
        Case c;
        bool spin = *vf::range(0, 5) == 0;
        if (spin) {
            c.cfg = {1, 0, 0, 0, *vf::range(2, 4), *vf::oneof<long>({V_SPIN, V_TICKET, V_QSPIN})};
            for (long k = 0; k < c.cfg[4]; k++) {
                long n = *vf::range(1, 4);
                for (long i = 0; i < n; i++) c.S("o" + std::to_string(k)).push_back({*rc::gen::weightedOneOf<long>({{3, rc::gen::just<long>(OP_SPIN_SECTION)}, {1, rc::gen::just<long>(OP_SPIN_TRY)}}), *vf::range(0, 3)});
            }
            c.S("sched") = *gen_schedule(30);
            return c;
        }
        long na = gen_common(c, 2, 5, 0);
        long variant = *vf::oneof<long>({V_MUTEX, V_MUTEX, V_CONTENDING, V_SEQ, V_RECURSIVE});
        c.cfg.push_back(variant);
        c.cfg.push_back(*vf::oneof<long>({0, 0, 1, 100}));
        for (long i = 0; i < na; i++) {
            long n = *vf::range(1, 5);
            auto& prog = c.S("a" + std::to_string(i));
            for (long k = 0; k < n; k++) {
                long kind = *rc::gen::weightedOneOf<long>({{6, rc::gen::just<long>(OP_LOCK_SECTION)}, {2, rc::gen::just<long>(OP_TRY_SECTION)}, {1, rc::gen::just<long>(OP_YIELD)},
                                                           {1, rc::gen::just<long>(OP_SLEEP)}, {2, rc::gen::just<long>(OP_INT)}});
                if (kind == OP_LOCK_SECTION || kind == OP_TRY_SECTION) {
                    long tmo = kind == OP_TRY_SECTION ? -1 : *rc::gen::weightedOneOf<long>({{4, rc::gen::just<long>(-1)}, {1, rc::gen::just<long>(0)}, {3, vf::range(1, 300)}, {2, vf::range(301, 5000)}});
                    long body = *vf::range(0, 2);
                    prog.push_back({kind, tmo, body, *gen_duration(), *vf::range(0, 2)});
                } else if (kind == OP_SLEEP) prog.push_back({kind, *gen_duration()});
                else if (kind == OP_INT) prog.push_back({kind, *vf::range(0, na - 1), *vf::range(0, 2)});
                else prog.push_back({kind});
            }
        }
        c.S("sched") = *gen_schedule(40);
        return c;
    });
}

std::string opname(const std::vector<long>& r) {
    std::ostringstream o;
    switch (r[0]) {
    case OP_LOCK_SECTION: o << "{lock(" << (r[1] < 0 ? std::string("inf") : std::to_string(r[1])) << "); body" << r[2] << "(" << r[3] << ") nest" << r[4] << "; unlock}"; break;
    case OP_TRY_SECTION: o << "{try_lock; body" << r[2] << "(" << r[3] << "); unlock}"; break;
    case OP_SPIN_SECTION: o << "{spin.lock x" << (r[1] % 4 + 1) << "}"; break;
    case OP_SPIN_TRY: o << "{spin.try_lock x" << (r[1] % 4 + 1) << "}"; break;
    default: o << "op" << r[0];
    }
    return o.str();
}

}  // namespace

int main(int argc, char** argv) {
    vf::Harness h;
    h.prop = "C01";
    h.gen = gen_case;
    h.run = run_case;
    h.desc = [](const Case& c) { return describe_common(c, opname); };
    h.fork_per_case = true;
    h.persistent_child = true;     // a child serves cases until one ends abnormally (finish_now), then it is replaced
    return vf::pbt_main(argc, argv, h);
}
