// C12 (hostile part) — libFuzzer target: arbitrary bytes presented as an incoming message.
// Input layout: payload ... | cuts (u8 each, 1/256ths of the payload) | ncuts (u8, 0..7) | type (u8)
// Oracle: deserialize() returns null, or a message whose every variable-length field lies inside the
// supplied pieces / allocator blocks; every such byte is then read (ASan judges), the sorted_map is
// iterated and probed.
#include "fuzz.h"
#include "c12_common.h"
#include <memory>
#include <set>

using namespace c12;

template <typename M, typename WalkFn>
static void one(const uint8_t* payload, size_t n, const std::vector<size_t>& cuts, const uint8_t* whole, size_t whole_n, const char* tname, WalkFn walkfn) {
    Blocks B;
    cur_blocks() = &B;
    std::vector<char*> blocks;
    IOVector iov(recording_alloc());
    std::set<size_t> pts(cuts.begin(), cuts.end());
    pts.insert(n);
    size_t prev = 0;
    for (size_t p : pts) {
        if (p <= prev && p != n) continue;
        if (p < prev) continue;
        size_t k = p - prev;
        char* blk = (char*)malloc(k);
        memcpy(blk, payload + prev, k);
        blocks.push_back(blk);
        B.supplied.push_back({blk, k});
        if (k) iov.push_back(blk, k);
        prev = p;
    }
    rpc::DeserializerIOV des;
    M* got = des.template deserialize<M>(&iov);
    vfz::label(std::string(tname) + (got ? ":accepted" : ":rejected"));
    if (n >= sizeof(M)) vfz::nontrivial(whole, whole_n, std::string(tname) + (got ? " accepted" : " rejected") + " pieces=" + std::to_string(B.supplied.size()));
    if (got) {
        Walk w;
        walkfn(B, got, w);
        if (!w.err.empty()) vfz::fail(std::string(tname) + ": accepted message but " + w.err);
    }
    iov.clear();
    for (char* p : blocks) free(p);
    for (auto& a : B.allocated) free((void*)a.p);
}

extern "C" int LLVMFuzzerTestOneInput(const uint8_t* data, size_t size) {
    static bool quiet = (set_log_output_level(ALOG_AUDIT + 1), set_log_output(log_output_null), true);
    (void)quiet;
    vfz::begin_case();
    if (size < 2) return 0;
    uint8_t type = data[size - 1] % 3;
    uint8_t ncuts = data[size - 2] % 8;
    if (size < 2u + ncuts) return 0;
    size_t n = size - 2 - ncuts;
    std::vector<size_t> cuts;
    for (int i = 0; i < ncuts; i++) cuts.push_back((size_t)data[n + i] * n / 256);
    static const std::vector<std::string> keys = {"a", "key", "\x01"};
    bool skip_map = vfz::excluded("hostile_map_slices");
    switch (type) {
    case 0: one<Big>(data, n, cuts, data, size, "Big", [&](const Blocks& B, Big* m, Walk& w) { walk_big(B, m, w, keys, skip_map); }); break;
    case 1: one<BigC>(data, n, cuts, data, size, "BigC", [&](const Blocks& B, BigC* m, Walk& w) { walk_big(B, m, w, keys, skip_map); }); break;
    default: one<Small>(data, n, cuts, data, size, "Small", [&](const Blocks& B, Small* m, Walk& w) { walk_small(B, m, w); }); break;
    }
    return 0;
}
