// C04 (b) — sleep / timeout / interrupt contract of the scheduler, under the controlled scheduler.
#include "lab_common.h"
#include <climits>

using namespace labc;

namespace {

enum { OP_SLEEPX = 10, OP_YIELDX = 11, OP_INTX = 12, OP_SHUTDOWN = 13 };

// [op_lo, op_hi]: the target's op instances that overlapped the thread_interrupt() call (the call is not atomic:
// a schedule point inside it may let the target finish one op and start the next before the interrupt lands)
struct Interrupt { int target; long op_lo, op_hi; int err; bool consumed = false; };

struct H {
    Common C;
    std::vector<long> opno;              // current op instance of each actor (-1: between ops)
    std::vector<int> in_blocking;        // 0 none, 1 sleep, 2 yield
    std::vector<Interrupt> ledger;
    std::vector<int> shut_pending, shut;
    std::set<std::string> labels;
    bool nt = false;
    long skipped_ints = 0, max_late_ticks = 0;
    long adv_total() {                   // sum of schedule "advance" actions that have fired so far
        long s = 0;
        for (auto& kv : C.L.ctl.schedule) if (kv.first <= C.L.ctl.step && kv.second.type == 1) s += kv.second.arg;
        return s;
    }
    int vcpu_of(int id) { auto v = photon::get_vcpu(C.L.actor_th[id]); for (int i = 0; i < (int)C.L.vcpus.size(); i++) if (C.L.vcpus[i] == v) return i; return -1; }

    // match a failure (errno e) of actor `id` in op instance `k` against the ledger
    bool consume(int id, long k, int e) {
        // failures arrive in increasing k; taking the open interval that closes first is the optimal matching
        Interrupt* best = nullptr;
        for (auto& it : ledger)
            if (!it.consumed && it.target == id && it.op_lo <= k && k <= it.op_hi && it.err == e && (!best || it.op_hi < best->op_hi)) best = &it;
        if (best) best->consumed = true;
        return best != nullptr;
    }
    void run_op(int id, const std::vector<long>& r) {
        auto& ctl = C.L.ctl;
        static long opcounter = 0;
        switch (r[0]) {
        case OP_SLEEPX: {
            long t = r.at(1);                       // -1: forever (only ends by interrupt)
            long k = ++opcounter;
            bool was_shut = shut[id];
            opno[id] = k; in_blocking[id] = 1;
            C.st[id].phase = "sleep"; C.st[id].phase_arg = t;
            uint64_t t0 = photon::now;
            // photon::now may be stale when the Timeout is built from it (a clock jump only becomes visible at
            // the next refresh); that staleness is legitimate lateness with respect to the deadline t0 + t
            long stale0 = (long)(ctl.vnow - t0);
            long steps0 = ctl.step, adv0 = adv_total();
            int ret = photon::thread_usleep(t < 0 ? -1UL : (uint64_t)t);
            int en = errno;
            uint64_t t1 = photon::now;
            in_blocking[id] = 0; opno[id] = -1;
            std::ostringstream who; who << "actor" << id << " sleep(" << t << ")";
            if (ret == 0) {
                // a shut-down thread may not block longer than the documented 10 ms, whatever it returns
                if (was_shut) {
                    long allowance = 10000 + stale0 + (adv_total() - adv0) + 25 * (ctl.step - steps0) + 2000;
                    if ((long)(t1 - t0) > allowance) ctl.violation(who.str() + " of a shut-down thread blocked for " + std::to_string(t1 - t0) + " us and returned 0 (bound 10 ms)");
                }
                if (t < 0) ctl.violation(who.str() + " (infinite) returned 0");
                if (t1 - t0 < (uint64_t)t) ctl.violation(who.str() + " returned 0 after only " + std::to_string(t1 - t0) + " us of photon::now");
                // lateness: how far past the deadline, beyond what the schedule's own clock jumps and the work done meanwhile explain
                long late = (long)(t1 - t0) - t;
                long allowance = stale0 + (adv_total() - adv0) + 25 * (ctl.step - steps0) + 2000;
                max_late_ticks = std::max(max_late_ticks, late - (adv_total() - adv0));
                if (late > allowance)
                    ctl.violation(who.str() + " woke " + std::to_string(late) + " us after its deadline (allowance " + std::to_string(allowance) + "): the sleeper was not resumed in the scheduling round after its deadline");
                if (t > 0) labels.insert("sleep_completed");
            } else {
                if (ret != -1) ctl.violation(who.str() + " returned " + std::to_string(ret));
                bool matched = consume(id, k, en);
                bool by_shutdown = en == EPERM && (shut_pending[id] || shut[id]);
                if (!matched && !by_shutdown) {
                    std::ostringstream lg;
                    for (auto& it : ledger) if (it.target == id) lg << " [ops " << it.op_lo << ".." << (it.op_hi == LONG_MAX ? -1 : it.op_hi) << " errno " << it.err << (it.consumed ? " consumed]" : " open]");
                    ctl.violation(who.str() + " (op instance " + std::to_string(k) + ") returned -1 with errno " + std::to_string(en) + " but no interrupt with that errno was issued to it during this sleep (stale or duplicated wake-up reason); interrupts issued to it:" + lg.str());
                }
                if (matched) { labels.insert("sleep_interrupted"); }
                if (by_shutdown && !matched) {
                    labels.insert("sleep_cut_by_shutdown");
                    long cap = std::min<long>(t < 0 ? 10000 : t, 10000);
                    long allowance = cap + stale0 + (adv_total() - adv0) + 25 * (ctl.step - steps0) + 2000;
                    if (was_shut && (long)(t1 - t0) > allowance) ctl.violation(who.str() + " of a shut-down thread blocked for " + std::to_string(t1 - t0) + " us (bound 10 ms)");
                }
            }
            break;
        }
        case OP_YIELDX: {
            long k = ++opcounter;
            opno[id] = k; in_blocking[id] = 2;
            C.st[id].phase = "yield";
            int ret = photon::thread_yield();
            in_blocking[id] = 0; opno[id] = -1;
            if (ret != 0) {
                if (!consume(id, k, ret))
                    ctl.violation("actor" + std::to_string(id) + " yield returned errno " + std::to_string(ret) + " but no such interrupt was issued to it during this yield");
                labels.insert("yield_interrupted");
            }
            break;
        }
        case OP_INTX: {
            int j = (int)(r.at(1) % C.nactors());
            int e = ERRNOS[r.at(2) % 3];
            // only while the target is inside a sleep/yield op (exact under the controller)
            if (j == id || !C.L.actor_th[j] || in_blocking[j] == 0 || C.st[j].finished) { skipped_ints++; break; }
            ledger.push_back(Interrupt{j, opno[j], LONG_MAX, e});
            size_t li = ledger.size() - 1;
            C.st[j].ints_received++;
            if (vcpu_of(j) != vcpu_of(id)) { nt = true; labels.insert("cross_vcpu_interrupt"); } else labels.insert("same_vcpu_interrupt");
            C.st[id].phase = "interrupt";
            photon::thread_interrupt(C.L.actor_th[j], e);
            ledger[li].op_hi = opcounter;       // every op instance started up to now may have received it
            break;
        }
        case OP_SHUTDOWN: {
            int j = (int)(r.at(1) % C.nactors());
            if (j == id || !C.L.actor_th[j] || C.st[j].finished) break;
            shut_pending[j] = 1;
            photon::thread_shutdown(C.L.actor_th[j], true);
            shut[j] = 1;
            labels.insert("shutdown_issued");
            break;
        }
        }
    }
};

Outcome run_case(const Case& c) {
    H h;
    h.C.setup(c, [&](int id, const std::vector<long>& r) { h.run_op(id, r); });
    int n = h.C.nactors();
    h.opno.assign(n, -1); h.in_blocking.assign(n, 0); h.shut_pending.assign(n, 0); h.shut.assign(n, 0);
    auto& ctl = h.C.L.ctl;
    // sleepers with ties / middle removals: counted from the case itself
    {
        std::map<long, int> dl; int sleepers = 0;
        for (int i = 0; i < n; i++) for (auto& r : c.S("a" + std::to_string(i))) if (!r.empty() && r[0] == OP_SLEEPX && r[1] > 0) { dl[r[1]]++; sleepers++; }
        bool tie = false; for (auto& kv : dl) if (kv.second > 1) tie = true;
        if (sleepers >= 3 && tie) { h.nt = true; h.labels.insert("three_sleepers_with_tie"); }
    }
    ctl.on_quiescence = [&]() {
        // an actor in an infinite sleep that nobody interrupts is legal; anything else blocked is a stranded sleeper
        std::ostringstream o; bool bad = false;
        for (auto& a : h.C.st) if (!a.finished && a.started) {
            if (std::string(a.phase) == "sleep" && a.phase_arg < 0) continue;
            bad = true;
        }
        for (auto& a : h.C.st) if (!a.started) bad = true;
        if (bad) { o << "quiescence with threads that should have been resumed:" << h.C.blocked_report(); ctl.violation(o.str()); }
        ctl.out.nontrivial = h.nt;
        for (auto& l : h.labels) ctl.out.label(l);
        ctl.out.label("ended_with_infinite_sleepers");
    };
    h.C.L.vcpu_teardown = [&](int) {
        if (photon::get_info(photon::INFO_SLEEPING_THREAD_NUM) != 0) ctl.violation("INFO_SLEEPING_THREAD_NUM != 0 after all actors finished");
    };
    h.C.L.run();
    Outcome& out = ctl.out;
    out.nontrivial = h.nt || h.labels.count("sleep_interrupted");
    for (auto& l : h.labels) out.label(l);
    h.C.L.stats_labels(out);
    return out;
}

rc::Gen<Case> gen_case(const vf::Options& opt) {
    bool excl_stale = opt.has("yield_leaves_reason");
    return rc::gen::exec([=]() {
        Case c;
        long na = gen_common(c, 2, 7, 0);
        // a small palette of durations so that equal deadlines are common
        std::vector<long> pal;
        long np = *vf::range(1, 4);
        for (long i = 0; i < np; i++) pal.push_back(*rc::gen::weightedOneOf<long>({{3, vf::range(1, 50)}, {3, vf::range(51, 1500)}, {1, vf::range(1501, 20000)}}));
        for (long i = 0; i < na; i++) {
            long n = *vf::range(1, 6);
            auto& prog = c.S("a" + std::to_string(i));
            bool infinite_used = false;
            for (long k = 0; k < n; k++) {
                long kind = *rc::gen::weightedOneOf<long>({{6, rc::gen::just<long>(OP_SLEEPX)}, {2, rc::gen::just<long>(OP_YIELDX)}, {4, rc::gen::just<long>(OP_INTX)}, {1, rc::gen::just<long>(OP_SHUTDOWN)}});
                if (kind == OP_SLEEPX) {
                    long t = *rc::gen::weightedOneOf<long>({{6, rc::gen::elementOf(pal)}, {1, rc::gen::just<long>(0)}, {1, rc::gen::just<long>(-1)}});
                    if (t < 0) { if (infinite_used) t = pal[0]; infinite_used = true; }
                    prog.push_back({kind, t});
                } else if (kind == OP_YIELDX) prog.push_back({kind});
                else if (kind == OP_INTX) prog.push_back({kind, *vf::range(0, na - 1), *vf::range(0, 2)});
                else prog.push_back({kind, *vf::range(0, na - 1)});
            }
            (void)excl_stale;
        }
        c.S("sched") = *gen_schedule(40);
        return c;
    });
}

std::string opname(const std::vector<long>& r) {
    std::ostringstream o;
    switch (r[0]) {
    case OP_SLEEPX: o << "sleep(" << (r[1] < 0 ? std::string("forever") : std::to_string(r[1])) << ")"; break;
    case OP_YIELDX: o << "yield"; break;
    case OP_INTX: o << "interrupt(actor#" << r[1] << ", e" << r[2] << ")"; break;
    case OP_SHUTDOWN: o << "shutdown(actor#" << r[1] << ")"; break;
    default: o << "op" << r[0];
    }
    return o.str();
}
}  // namespace

int main(int argc, char** argv) {
    vf::Harness h;
    h.prop = "C04";
    h.gen = gen_case;
    h.run = run_case;
    h.desc = [](const Case& c) { return describe_common(c, opname); };
    h.fork_per_case = true;
    h.persistent_child = true;     // a child serves cases until one ends abnormally (finish_now), then it is replaced
    return vf::pbt_main(argc, argv, h);
}
