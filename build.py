#!/usr/bin/env python3
"""Build PhotonLibOS translation units straight from /repo's working tree plus
the verification harnesses.  Nothing from /repo/_build is used.

Objects are cached under /verif/build/obj/<flavor>/ keyed by the SHA-256 of
(compiler flags, contents of the source and of every /repo or /verif header it
included last time).  An edited source or header always forces a rebuild.
"""
import os, sys, json, hashlib, subprocess, fcntl, time, shlex
from concurrent.futures import ThreadPoolExecutor

REPO = os.environ.get("VERIF_REPO", "/repo")
VERIF = os.path.dirname(os.path.abspath(__file__))
BUILD = os.path.join(VERIF, "build")
NJOBS = int(os.environ.get("VERIF_JOBS", "16"))
GUARD = "PHOTON_VERIF"

COMMON_DEFS = ["-DENABLE_CURL", "-DPHOTON_GLOBAL_INIT_OPENSSL", "-D" + GUARD,
               "-I" + REPO + "/include", "-I" + VERIF + "/engine",
               "-msse3", "-mssse3", "-msse4.1", "-msse4.2", "-mpopcnt", "-mcx16",
               "-fPIC", "-fno-omit-frame-pointer", "-faligned-new"]

FLAVORS = {
    # schedlab / concurrency harnesses: ASan, asserts ON
    "lab": dict(cxx="clang++", flags=["-std=gnu++17", "-O1", "-g", "-fsanitize=address",
                                       "-Wno-everything"],
                ld=["-fsanitize=address"]),
    # data-plane harnesses: ASan+UBSan, NDEBUG like the shipped build
    "data": dict(cxx="clang++", flags=["-std=gnu++17", "-O1", "-g",
                                        "-fsanitize=address,undefined",
                                        "-fno-sanitize=alignment,vptr,function,null,pointer-overflow",
                                        "-fno-sanitize-recover=undefined",
                                        "-DNDEBUG", "-Wno-everything"],
                 ld=["-fsanitize=address,undefined"]),
    # libFuzzer targets
    "fuzz": dict(cxx="clang++", flags=["-std=gnu++17", "-O1", "-g",
                                        "-fsanitize=fuzzer-no-link,address,undefined",
                                        "-fno-sanitize=alignment,vptr,function,null,pointer-overflow",
                                        "-fno-sanitize-recover=undefined",
                                        "-DNDEBUG", "-Wno-everything"],
                 ld=["-fsanitize=fuzzer,address,undefined"]),
    # shipped configuration, for free-running stress
    "rel": dict(cxx="g++", flags=["-std=gnu++17", "-O2", "-g", "-DNDEBUG", "-w"],
                ld=[]),
}
GXX_ONLY = {"common/checksum/crc.cpp"}   # unbalanced '#pragma clang attribute' under clang 14
GXX_EXTRA = ["-mpclmul", "-mavx2"]
LIBS = ["-lpthread", "-lssl", "-lcrypto", "-lcurl", "-lz", "-laio", "-lrt", "-ldl"]


def log(*a):
    print("[build]", *a, file=sys.stderr, flush=True)


def lib_tus():
    out = []
    for l in open(os.path.join(VERIF, "lib_tus.txt")):
        l = l.strip()
        if l and not l.startswith("#") and os.path.exists(os.path.join(REPO, l)):
            out.append(l)
    return out


_hash_cache = {}


def fhash(path):
    try:
        st = os.stat(path)
    except OSError:
        return "missing"
    key = (path, st.st_mtime_ns, st.st_size)
    h = _hash_cache.get(key)
    if h is None:
        with open(path, "rb") as f:
            h = hashlib.sha256(f.read()).hexdigest()
        _hash_cache[key] = h
    return h


_rp_cache = {}
_deps_cache = {}


def _realpath(d):
    r = _rp_cache.get(d)
    if r is None:
        r = _rp_cache[d] = os.path.realpath(d)
    return r


def parse_deps(dfile):
    try:
        st = os.stat(dfile)
        ck = (dfile, st.st_mtime_ns, st.st_size)
        if ck in _deps_cache:
            return _deps_cache[ck]
    except OSError:
        return None
    r = _parse_deps(dfile)
    _deps_cache[ck] = r
    return r


def _parse_deps(dfile):
    try:
        txt = open(dfile).read()
    except OSError:
        return None
    txt = txt.replace("\\\n", " ")
    if ":" not in txt:
        return None
    deps = txt.split(":", 1)[1].split()
    # only files that can change between runs: /repo and /verif; resolve symlinks
    out = []
    rr = _realpath(REPO) + "/"
    for d in deps:
        if not (d.startswith("/repo") or d.startswith(REPO) or d.startswith(VERIF) or not d.startswith("/")):
            continue            # system header
        r = _realpath(d)
        if r.startswith(rr) or r.startswith(VERIF + "/"):
            out.append(r)
    return sorted(set(out))


def obj_key(cmd, deps):
    h = hashlib.sha256()
    h.update(" ".join(cmd).encode())
    for d in deps:
        h.update(d.encode()); h.update(fhash(d).encode())
    return h.hexdigest()


def compile_one(src, obj, cxx, flags):
    """Compile src -> obj if the cached key does not match.  Returns (obj, rebuilt, err)."""
    os.makedirs(os.path.dirname(obj), exist_ok=True)
    dfile = obj + ".d"
    kfile = obj + ".key"
    cmd = [cxx] + flags + ["-c", src, "-o", obj, "-MD", "-MF", dfile]
    keycmd = [cxx] + flags + [src]
    deps = parse_deps(dfile)
    if deps is not None and os.path.exists(obj) and os.path.exists(kfile):
        if open(kfile).read() == obj_key(keycmd, deps):
            return obj, False, None
    p = subprocess.run(cmd, stdout=subprocess.PIPE, stderr=subprocess.STDOUT, text=True)
    if p.returncode != 0:
        for f in (kfile,):
            if os.path.exists(f):
                os.unlink(f)
        return obj, True, "FAILED: %s\n%s" % (" ".join(cmd), p.stdout[-6000:])
    deps = parse_deps(dfile) or [os.path.realpath(src)]
    with open(kfile, "w") as f:
        f.write(obj_key(keycmd, deps))
    return obj, True, None


def flavor_flags(flavor, extra=()):
    fl = FLAVORS[flavor]
    return fl["cxx"], fl["flags"] + COMMON_DEFS + list(extra)


def build_lib(flavor):
    """Returns path of the static archive with every library TU for this flavor."""
    t0 = time.time()
    odir = os.path.join(BUILD, "obj", flavor)
    jobs = []
    for tu in lib_tus():
        cxx, flags = flavor_flags(flavor)
        if tu in GXX_ONLY:
            cxx = "g++"
            flags = ["-std=gnu++17", "-O2", "-g", "-DNDEBUG", "-w"] + COMMON_DEFS + GXX_EXTRA
        jobs.append((os.path.join(REPO, tu), os.path.join(odir, tu + ".o"), cxx, flags))
    with ThreadPoolExecutor(NJOBS) as ex:
        res = list(ex.map(lambda j: compile_one(*j), jobs))
    errs = [e for _, _, e in res if e]
    if errs:
        for e in errs:
            log(e)
        raise SystemExit("library build failed (%d TUs)" % len(errs))
    nre = sum(1 for _, r, _ in res if r)
    ar = os.path.join(BUILD, "lib", "libphoton_%s.a" % flavor)
    os.makedirs(os.path.dirname(ar), exist_ok=True)
    if nre or not os.path.exists(ar):
        if os.path.exists(ar):
            os.unlink(ar)
        subprocess.check_call(["ar", "rcs", ar] + [o for o, _, _ in res])
    log("lib %s: %d TUs, %d rebuilt, %.1fs" % (flavor, len(res), nre, time.time() - t0))
    return ar


def build_harness(name, flavor, sources, extra_flags=(), extra_libs=(), nolib=False):
    """Compile harness sources (paths relative to /verif) and link against the library."""
    t0 = time.time()
    ar = None if nolib else build_lib(flavor)
    cxx, flags = flavor_flags(flavor, extra_flags)
    odir = os.path.join(BUILD, "hobj", flavor, name)
    jobs = [(os.path.join(VERIF, s), os.path.join(odir, s.replace("/", "_") + ".o"), cxx, flags)
            for s in sources]
    with ThreadPoolExecutor(NJOBS) as ex:
        res = list(ex.map(lambda j: compile_one(*j), jobs))
    errs = [e for _, _, e in res if e]
    if errs:
        for e in errs:
            log(e)
        raise SystemExit("harness build failed: " + name)
    exe = os.path.join(BUILD, "bin", "%s.%s" % (name, flavor))
    os.makedirs(os.path.dirname(exe), exist_ok=True)
    cmd = [cxx] + FLAVORS[flavor]["ld"] + [o for o, _, _ in res] + ([ar] if ar else []) + \
          list(extra_libs) + LIBS + ["-o", exe]
    lk = exe + ".lkey"
    h = hashlib.sha256((" ".join(cmd)).encode())
    for o, _, _ in res:
        h.update(fhash(o).encode())
    if ar:
        h.update(fhash(ar).encode())
    key = h.hexdigest()
    if not (os.path.exists(exe) and os.path.exists(lk) and open(lk).read() == key):
        p = subprocess.run(cmd, stdout=subprocess.PIPE, stderr=subprocess.STDOUT, text=True)
        if p.returncode != 0:
            log("LINK FAILED: " + " ".join(cmd) + "\n" + p.stdout[-6000:])
            raise SystemExit("link failed: " + name)
        open(lk, "w").write(key)
    log("harness %s.%s ready in %.1fs" % (name, flavor, time.time() - t0))
    return exe


class BuildLock:
    def __enter__(self):
        os.makedirs(BUILD, exist_ok=True)
        self.f = open(os.path.join(BUILD, ".lock"), "w")
        fcntl.flock(self.f, fcntl.LOCK_EX)
        return self

    def __exit__(self, *a):
        fcntl.flock(self.f, fcntl.LOCK_UN)
        self.f.close()


def load_targets():
    return json.load(open(os.path.join(VERIF, "targets.json")))


def build_target(tname):
    t = load_targets()[tname]
    with BuildLock():
        return build_harness(tname, t["flavor"], t["sources"], t.get("flags", []),
                             t.get("libs", []), t.get("nolib", False))


def main():
    if len(sys.argv) > 1 and sys.argv[1] == "--setup":
        with BuildLock():
            ts = load_targets()
            for fl in sorted(set(t["flavor"] for t in ts.values() if not t.get("nolib"))):
                build_lib(fl)
            for n, t in ts.items():
                build_harness(n, t["flavor"], t["sources"], t.get("flags", []),
                              t.get("libs", []), t.get("nolib", False))
        return
    for n in sys.argv[1:]:
        print(build_target(n))


if __name__ == "__main__":
    main()
