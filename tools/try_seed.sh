#!/bin/bash
# try_seed.sh <PROP> <patch> : apply a candidate change to /repo's working tree, run the quick check, restore the tree.
P=$1; F=$2
cd /repo || exit 2
if ! git diff --quiet; then echo "repo working tree not clean"; exit 2; fi
git apply "$F" || { echo "patch does not apply"; exit 2; }
cd /verif
VERIF_SEED=${VERIF_SEED:-1} ./check $P --tier ${TIER:-quick} > /tmp/try_seed.$P.log 2>&1
rc=$?
git -C /repo checkout -- .
grep -E "^VIOLATION|KNOWN-FINDING|^$P " /tmp/try_seed.$P.log | cut -c1-300
echo "exit=$rc"
# the evidence file now describes a run on a modified tree: restore the committed one
git -C /verif checkout -- evidence/$P.json 2>/dev/null
