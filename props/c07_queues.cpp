// C07 — lock-free ring queues (MPMC, batch-MPMC, SPSC; fixed and flex) and RingChannel / FlexRingChannel.
#include "lab_common.h"
#include <photon/common/lockfree_queue.h>

using namespace labc;

namespace {

// ---- uniform face over the queue types -----------------------------------------------------
struct IQ {
    virtual ~IQ() {}
    virtual bool push(long v) = 0;
    virtual bool pop(long& v) = 0;
    virtual size_t push_batch(const long* v, size_t n) { size_t k = 0; while (k < n && push(v[k])) k++; return k; }
    virtual size_t pop_batch(long* v, size_t n) { size_t k = 0; while (k < n && pop(v[k])) k++; return k; }
    virtual void send(long v) = 0;      // blocking, CPUPause
    virtual long recv() = 0;            // blocking, CPUPause
    virtual size_t capacity() = 0;
    virtual bool has_batch() { return false; }
};
template <typename Q> struct QFix : IQ {
    Q q;
    bool push(long v) override { return q.push(v); }
    bool pop(long& v) override { return q.pop(v); }
    void send(long v) override { q.template send<CPUPause>(v); }
    long recv() override { return q.template recv<CPUPause>(); }
    size_t capacity() override { return q.capacity; }
};
template <typename Q> struct QFixB : QFix<Q> {
    size_t push_batch(const long* v, size_t n) override { return this->q.push_batch(v, n); }
    size_t pop_batch(long* v, size_t n) override { return this->q.pop_batch(v, n); }
    bool has_batch() override { return true; }
};
template <typename FQ> struct QFlex : IQ {
    FQ* q;
    explicit QFlex(size_t c) : q((FQ*)FQ::create(c)) {}
    ~QFlex() { FQ::destroy(q); }
    bool push(long v) override { return q->push(v); }
    bool pop(long& v) override { return q->pop(v); }
    void send(long v) override { q->template send<CPUPause>(v); }
    long recv() override { return q->template recv<CPUPause>(); }
    size_t capacity() override { return q->capacity; }
};
template <typename FQ> struct QFlexB : QFlex<FQ> {
    using QFlex<FQ>::QFlex;
    size_t push_batch(const long* v, size_t n) override { return this->q->push_batch(v, n); }
    size_t pop_batch(long* v, size_t n) override { return this->q->pop_batch(v, n); }
    bool has_batch() override { return true; }
};

IQ* make_queue(int kind, int sz) {
    // kind 0 MPMC, 1 batch MPMC, 2 SPSC ; sz: 0..2 fixed N=3 (rounds to 4),2,4 (N=1 does not compile with clang: clz(0)) ; 3.. flex capacity 1,2,3,4,8
    static const size_t flexcap[] = {1, 2, 3, 4, 8};
    if (sz >= 3) {
        size_t c = flexcap[(sz - 3) % 5];
        if (kind == 0) return new QFlex<FlexLockfreeMPMCRingQueue<long>>(c);
        if (kind == 1) return new QFlexB<FlexLockfreeBatchMPMCRingQueue<long>>(c);
        return new QFlexB<FlexLockfreeSPSCRingQueue<long>>(c);
    }
    switch (kind * 3 + sz) {
    case 0: return new QFix<LockfreeMPMCRingQueue<long, 3>>();
    case 1: return new QFix<LockfreeMPMCRingQueue<long, 2>>();
    case 2: return new QFix<LockfreeMPMCRingQueue<long, 4>>();
    case 3: return new QFixB<LockfreeBatchMPMCRingQueue<long, 3>>();
    case 4: return new QFixB<LockfreeBatchMPMCRingQueue<long, 2>>();
    case 5: return new QFixB<LockfreeBatchMPMCRingQueue<long, 4>>();
    case 6: return new QFixB<LockfreeSPSCRingQueue<long, 3>>();
    case 7: return new QFixB<LockfreeSPSCRingQueue<long, 2>>();
    default: return new QFixB<LockfreeSPSCRingQueue<long, 4>>();
    }
}

enum { OP_PUSH = 10, OP_TRYPUSH = 11, OP_SENDQ = 12, OP_PUSHB = 13,         // producer ops (OS threads)
       OP_CH_SEND = 20, OP_CH_RECV = 21 };                                   // channel ops (photon actors / OS threads)

static long mk(int p, long s) { return ((long)p << 32) | s; }

struct H {
    Common C;
    // ---- part A
    std::unique_ptr<IQ> q;
    int nprod = 0, ncons = 0;
    int producers_done = 0;
    std::vector<long> pseq;
    std::multiset<long> pushed_ok, popped;
    std::vector<std::map<int, long>> last_seen;   // per consumer
    long push_completed = 0, pop_started = 0;
    bool was_full = false, was_empty = false, wrapped = false;
    // ---- part B
    using Chan = photon::common::RingChannel<LockfreeMPMCRingQueue<long, 2>>;
    using Chan4 = photon::common::RingChannel<LockfreeMPMCRingQueue<long, 4>>;
    using FChan = photon::common::FlexRingChannel<FlexLockfreeMPMCRingQueue<long>>;
    std::unique_ptr<Chan> ch2; std::unique_ptr<Chan4> ch4; FChan* fch = nullptr;
    int chkind = 0;
    std::map<long, uint64_t> send_done_at;        // value -> virtual time its send completed
    std::map<long, long> send_done_adv;
    long max_latency = 0;
    bool consumer_slept = false, sender_slept = false;
    long evseq = 0;                                      // order of channel events (several can share one virtual microsecond)
    std::vector<std::pair<long, long>> pop_done_et;      // (order in which the recv() call STARTED, effective time at which it returned); effective = virtual time minus injected clock jumps
    struct SendRec { long start_seq, end_seq; };          // end_seq 0: still inside send()
    std::deque<SendRec> send_recs;
    long et() { return (long)C.L.ctl.vnow - adv_total(); }
    std::set<std::string> labels;
    bool nt = false;

    long adv_total() { long s = 0; for (auto& kv : C.L.ctl.schedule) if (kv.first <= C.L.ctl.step && kv.second.type == 1) s += kv.second.arg; return s; }

    void check_occupancy() {
        if (push_completed - pop_started > (long)q->capacity())
            C.L.ctl.violation("queue holds more than its capacity: " + std::to_string(push_completed) + " pushes completed, " + std::to_string(pop_started) + " pops started, capacity " + std::to_string(q->capacity()));
        if (push_completed - pop_started >= (long)q->capacity()) was_full = true;
        if ((size_t)push_completed > q->capacity()) wrapped = true;
    }
    void got(int cons, long v) {
        auto& ctl = C.L.ctl;
        int p = (int)(v >> 32); long s = v & 0xffffffff;
        if (p < 0 || p >= nprod || s <= 0 || s >= pseq[p]) ctl.violation("consumer " + std::to_string(cons) + " received " + std::to_string(v) + ", a value nobody pushed");
        popped.insert(v);
        if (popped.count(v) > 1) ctl.violation("value (producer " + std::to_string(p) + ", seq " + std::to_string(s) + ") was returned twice");
        auto it = last_seen[cons].find(p);
        if (it != last_seen[cons].end() && it->second >= s) ctl.violation("consumer " + std::to_string(cons) + " received producer " + std::to_string(p) + "'s #" + std::to_string(s) + " after #" + std::to_string(it->second));
        last_seen[cons][p] = s;
    }
    // OS-thread participants: k < nprod producers, others consumers
    void run_os_op(int k, const std::vector<long>& r) {
        auto& ctl = C.L.ctl;
        if (chkind) { run_channel_os(k, r); return; }
        if (k < nprod) {
            long n = r.size() > 1 ? std::max<long>(1, r[1]) : 1;
            switch (r[0]) {
            case OP_PUSH: {     // retry until accepted
                long v = mk(k, pseq[k]++);
                long spins = 0;
                while (!q->push(v)) { was_full = true; PHOTON_VERIF_SP(PHOTON_VERIF_SP_BUSYWAIT, nullptr); if (++spins > 100000) ctl.inconclusive("push spun 100000 times"); }
                pushed_ok.insert(v); push_completed++; check_occupancy();
                break;
            }
            case OP_TRYPUSH: {
                long v = mk(k, pseq[k]++);
                if (q->push(v)) { pushed_ok.insert(v); push_completed++; check_occupancy(); } else { was_full = true; labels.insert("try_push_full"); }
                break;
            }
            case OP_SENDQ: {
                long v = mk(k, pseq[k]++);
                pushed_ok.insert(v);           // send() cannot fail; the value may be received before send returns
                q->send(v);
                push_completed++;
                break;
            }
            case OP_PUSHB: {
                std::vector<long> vs;
                for (long i = 0; i < n; i++) vs.push_back(mk(k, pseq[k] + i));
                pseq[k] += n;                       // before the push: consumers may see the values at once
                size_t done = 0; long spins = 0;
                while (done < vs.size()) {
                    // values become visible to consumers inside push_batch: account before the call, roll back what was refused
                    for (size_t i = done; i < vs.size(); i++) pushed_ok.insert(vs[i]);
                    size_t w = q->push_batch(vs.data() + done, vs.size() - done);
                    for (size_t i = done + w; i < vs.size(); i++) pushed_ok.erase(pushed_ok.find(vs[i]));
                    push_completed += (long)w; done += w;
                    if (w) check_occupancy();
                    if (done < vs.size()) { was_full = true; PHOTON_VERIF_SP(PHOTON_VERIF_SP_BUSYWAIT, nullptr); if (++spins > 100000) ctl.inconclusive("push_batch spun"); }
                }
                labels.insert("batch_push");
                break;
            }
            }
        }
    }
    void consumer_loop(int cons, long batch) {
        auto& ctl = C.L.ctl;
        long spins = 0;
        for (;;) {
            bool done_before = producers_done == nprod;
            long v[8]; size_t n;
            pop_started += (batch > 1 ? batch : 1);       // conservative: count the slots this call may free
            if (batch > 1 && q->has_batch()) n = q->pop_batch(v, (size_t)batch); else { n = q->pop(v[0]) ? 1 : 0; }
            pop_started -= (batch > 1 ? batch : 1) - (long)n;
            for (size_t i = 0; i < n; i++) got(cons, v[i]);
            if (n == 0) {
                was_empty = true;
                if (done_before) return;                   // producers had finished before this (failed) pop began
                PHOTON_VERIF_SP(PHOTON_VERIF_SP_BUSYWAIT, nullptr);
                if (++spins > 200000) ctl.inconclusive("consumer spun 200000 times");
            }
        }
    }
    // ---- part B
    void ch_send_photon(long v) { if (chkind == 1) ch2->send<PhotonPause>(v); else if (chkind == 2) ch4->send<PhotonPause>(v); else fch->send<PhotonPause>(v); }
    void ch_send_cpu(long v) { if (chkind == 1) ch2->send<CPUPause>(v); else if (chkind == 2) ch4->send<CPUPause>(v); else fch->send<CPUPause>(v); }
    long ch_avail() { return chkind == 1 ? (long)ch2->read_available() : chkind == 2 ? (long)ch4->read_available() : (long)fch->read_available(); }
    long ch_recv() { return chkind == 1 ? ch2->recv() : chkind == 2 ? ch4->recv() : fch->recv(); }
    void mark_sent(long v) { send_done_at[v] = C.L.ctl.vnow; send_done_adv[v] = adv_total(); }
    void run_channel_os(int k, const std::vector<long>& r) {
        if (r[0] != OP_CH_SEND) return;
        long v = mk(100 + k, pseq[100 + k]++);
        pushed_ok.insert(v);
        send_recs.push_back({++evseq, 0}); SendRec* my_rec = &send_recs.back();
        ch_send_cpu(v);
        mark_sent(v);
        my_rec->end_seq = ++evseq;
        if (getenv("C07_DEBUG")) fprintf(stderr, "[c07] et=%ld os%d send done\n", et(), k);
    }
    void run_op(int id, const std::vector<long>& r) {
        auto& ctl = C.L.ctl;
        if (r[0] == OP_CH_SEND) {
            long v = mk(id, pseq[id]++);
            pushed_ok.insert(v);
            C.st[id].phase = "channel send";
            long t0e = et(), start_seq = ++evseq;
            send_recs.push_back({start_seq, 0}); SendRec* my_rec = &send_recs.back();
            if (getenv("C07_DEBUG")) fprintf(stderr, "[c07] et=%ld actor%d send start (ring holds %ld)\n", t0e, id, ch_avail());
            ch_send_photon(v);
            mark_sent(v);
            long t1e = et();
            if (getenv("C07_DEBUG")) fprintf(stderr, "[c07] et=%ld actor%d send done (ring holds %ld)\n", t1e, id, ch_avail());
            long my_seq = ++evseq;
            my_rec->end_seq = my_seq;
            // A producer parked on a full ring must be released when space appears, not by its 100 ms periodic re-check:
            // slots freed at least 10 ms before it got through, minus the slots other producers took while it waited.
            if (t1e - t0e > 2000) sender_slept = true;
            if (t1e - t0e > 10000) {
                long freed = 0, taken = 0;
                // pops that certainly happened while this send() was in progress and at least 10 ms before it got through
                for (auto& p : pop_done_et) if (p.first > start_seq && p.second <= t1e - 10000) freed++;
                // any other send() that overlapped this one may have taken a freed slot (its push can succeed long before the call returns)
                for (auto& sr : send_recs) if (&sr != my_rec && sr.start_seq < my_seq && (sr.end_seq == 0 || sr.end_seq > start_seq)) taken++;
                if (freed > taken)
                    ctl.violation("a producer blocked in send() on a full ring got through " + std::to_string(t1e - t0e) + " us (virtual) after it started although " + std::to_string(freed) +
                                  " slot(s) had been freed more than 10 ms earlier and only " + std::to_string(taken) + " other send(s) overlapped it" + std::string() + ": it was not notified, only its periodic re-check rescued it");
            }
        } else if (r[0] == OP_CH_RECV) {
            C.st[id].phase = "channel recv";
            uint64_t t0 = ctl.vnow;
            long recv_start_seq = ++evseq;
            long v = ch_recv();
            uint64_t t1 = ctl.vnow;
            if (!pushed_ok.count(v)) ctl.violation("channel recv returned " + std::to_string(v) + ", a value nobody sent");
            pop_done_et.push_back({recv_start_seq, et()});    // its pop happened somewhere between these two
            if (getenv("C07_DEBUG")) fprintf(stderr, "[c07] et=%ld actor%d recv done (ring holds %ld)\n", et(), id, ch_avail());
            popped.insert(v);
            if (popped.count(v) > 1) ctl.violation("channel delivered a value twice");
            int p = (int)(v >> 32); long s = v & 0xffffffff;
            auto it = last_seen[id].find(p);
            if (it != last_seen[id].end() && it->second >= s) ctl.violation("channel consumer received a producer's values out of order");
            last_seen[id][p] = s;
            // wake-up latency: this consumer was inside recv() since t0; the value's send completed at ts.
            // A consumer that is rescued only by its 100 ms periodic re-check violates the statement.
            auto sd = send_done_at.find(v);
            if (sd != send_done_at.end()) {
                uint64_t from = std::max(sd->second, t0);
                long lat = (long)(t1 - from) - (adv_total() - std::max(send_done_adv[v], 0L));
                max_latency = std::max(max_latency, lat);
                if (t1 - t0 > 2000) { consumer_slept = true; }
                if (lat > 10000)
                    ctl.violation("a consumer blocked in recv() got value " + std::to_string(v) + " only " + std::to_string(lat) + " us (virtual) after the element became available: it was not notified, only its periodic re-check rescued it");
            }
        }
    }
};

Outcome run_case(const Case& c) {
    H h;
    long part = c.cfg.at(5);
    auto& ctl = h.C.L.ctl;
    if (part == 0) {
        int kind = (int)c.cfg.at(6), sz = (int)c.cfg.at(7);
        h.q.reset(make_queue(kind, sz));
        h.nprod = (int)c.cfg.at(8); h.ncons = (int)c.cfg.at(4) - h.nprod;
        long batch = c.cfg.at(9);
        h.pseq.assign(h.nprod, 1); h.last_seen.resize(h.ncons);
        h.C.setup(c, nullptr, nullptr);
        // replace the OS-thread bodies: producers run their programs, consumers drain until producers are done
        h.C.L.os_threads.clear();
        for (int k = 0; k < h.nprod + h.ncons; k++) {
            h.C.L.os_threads.push_back([&h, &c, k, batch]() {
                if (k < h.nprod) { for (auto& r : c.S("o" + std::to_string(k))) if (!r.empty()) h.run_os_op(k, r); h.producers_done++; }
                else h.consumer_loop(k - h.nprod, batch);
            });
        }
        ctl.max_steps = 400000;
        ctl.on_deadlock = [&]() {
            std::ostringstream o; o << "pushed_ok=" << h.pushed_ok.size() << " popped=" << h.popped.size() << " push_completed=" << h.push_completed << " producers_done=" << h.producers_done;
            return o.str();
        };
        ctl.on_quiescence = [&]() { ctl.violation("quiescence with queue participants still running:" + h.C.blocked_report()); };
        h.C.L.run();
        if (h.pushed_ok != h.popped) {
            std::ostringstream o; o << "after draining, " << h.pushed_ok.size() << " values were pushed successfully but " << h.popped.size() << " were popped";
            for (long v : h.pushed_ok) if (!h.popped.count(v)) { o << "; lost (producer " << (v >> 32) << ", seq " << (v & 0xffffffff) << ")"; break; }
            return Outcome::violation(o.str());
        }
        Outcome& out = ctl.out;
        out.nontrivial = h.was_full && h.was_empty && h.wrapped;
        if (h.was_full) out.label("queue_was_full"); if (h.was_empty) out.label("queue_was_empty"); if (h.wrapped) out.label("indices_wrapped");
        static const char* kn[] = {"mpmc", "batch_mpmc", "spsc"};
        out.label(std::string("queue:") + kn[kind] + (sz >= 3 ? "_flex" : "_fixed"));
        for (auto& l : h.labels) out.label(l);
        h.C.L.stats_labels(out);
        return out;
    }
    // ---- part B: channel
    h.chkind = (int)c.cfg.at(6);
    long yt = c.cfg.at(7);
    if (h.chkind == 1) h.ch2.reset(new H::Chan((uint64_t)yt, 50));
    else if (h.chkind == 2) h.ch4.reset(new H::Chan4((uint64_t)yt, 50));
    else h.fch = H::FChan::create((size_t)c.cfg.at(8), (uint64_t)yt, 50);
    h.pseq.assign(200, 1);
    h.C.horizon_extra = 2000000;       // the 100 ms periodic re-checks must be able to fire (that is what we detect)
    h.C.setup(c, [&](int id, const std::vector<long>& r) { h.run_op(id, r); }, [&](int k, const std::vector<long>& r) { h.run_os_op(k, r); });
    h.last_seen.resize(h.C.nactors());
    ctl.max_steps = 400000;
    ctl.on_quiescence = [&]() { ctl.violation("channel: quiescence with actors still blocked although every value sent has a matching recv:" + h.C.blocked_report()); };
    h.C.L.run();
    if (h.pushed_ok != h.popped) return Outcome::violation("channel: values sent and values received differ (" + std::to_string(h.pushed_ok.size()) + " vs " + std::to_string(h.popped.size()) + ")");
    if (h.fch) H::FChan::destroy(h.fch);
    Outcome& out = ctl.out;
    out.nontrivial = h.consumer_slept || h.sender_slept;
    if (h.sender_slept) out.label("producer_waited_on_a_full_ring");
    if (h.consumer_slept) out.label("consumer_slept_in_semaphore_and_was_woken");
    out.label(h.chkind == 3 ? "channel:flex" : "channel:ring");
    h.C.L.stats_labels(out);
    return out;
}

rc::Gen<Case> gen_case(const vf::Options&) {
    return rc::gen::exec([]() {
        Case c;
        bool channel = *vf::range(0, 2) == 0;
        if (!channel) {
            long kind = *vf::range(0, 2), sz = *vf::range(0, 7);
            long nprod = kind == 2 ? 1 : *vf::range(1, 3), ncons = kind == 2 ? 1 : *vf::range(1, 2);
            c.cfg = {1, 0, 0, 0, nprod + ncons, 0, kind, sz, nprod, *vf::oneof<long>({1, 1, 2, 3})};
            for (long k = 0; k < nprod; k++) {
                long n = *vf::range(1, 8);
                for (long i = 0; i < n; i++) {
                    long op = *rc::gen::weightedOneOf<long>({{4, rc::gen::just<long>(OP_PUSH)}, {2, rc::gen::just<long>(OP_TRYPUSH)}, {kind == 0 ? 2 : 0, rc::gen::just<long>(OP_SENDQ)}, {kind != 0 ? 3 : 0, rc::gen::just<long>(OP_PUSHB)}});
                    c.S("o" + std::to_string(k)).push_back({op, *vf::range(1, 5)});
                }
            }
            c.S("sched") = *gen_schedule(60);
            return c;
        }
        // channel: consumers are photon actors; producers photon actors or OS threads; #recv == #send
        long nv = *vf::range(1, 3), chkind = *vf::range(1, 3);
        bool slow_consumers = *vf::range(0, 1) == 1;
        long ncons = *vf::range(1, 3), nprod_ph = slow_consumers ? *vf::range(1, 3) : *vf::range(0, 2), nprod_os = nprod_ph == 0 ? *vf::range(1, 2) : *vf::range(0, 1);
        c.cfg = {nv, 0, 0, 0, nprod_os, 1, chkind, *vf::oneof<long>({0, 1, 2}), *vf::oneof<long>({1, 2, 3, 4})};
        long total = 0;
        std::vector<long> sends;
        for (long p = 0; p < nprod_ph + nprod_os; p++) { long n = *vf::range(1, 6); sends.push_back(n); total += n; }
        for (long i = 0; i < ncons; i++) c.S("actor").push_back({*vf::range(0, nv - 1), 0});
        for (long i = 0; i < nprod_ph; i++) c.S("actor").push_back({*vf::range(0, nv - 1), 0});
        // distribute the recvs over the consumers
        for (long t = 0; t < total; t++) {
            auto& prog = c.S("a" + std::to_string(*vf::range(0, ncons - 1)));
            // slow consumers let the ring fill up, so that producers park on it; pops then come in bursts
            if (slow_consumers && *vf::range(0, 2) == 0) prog.push_back({OP_SLEEP, *vf::range(2000, 30000)});
            prog.push_back({OP_CH_RECV});
        }
        for (long p = 0; p < nprod_ph; p++) {
            auto& prog = c.S("a" + std::to_string(ncons + p));
            for (long i = 0; i < sends[p]; i++) { if (*vf::range(0, 2) == 0) prog.push_back({OP_SLEEP, *rc::gen::weightedOneOf<long>({{3, vf::range(1, 300)}, {2, vf::range(301, 30000)}})}); prog.push_back({OP_CH_SEND}); }
        }
        for (long p = 0; p < nprod_os; p++) for (long i = 0; i < sends[nprod_ph + p]; i++) c.S("o" + std::to_string(p)).push_back({OP_CH_SEND});
        c.S("sched") = *gen_schedule(60);
        return c;
    });
}

std::string opname(const std::vector<long>& r) {
    switch (r[0]) {
    case OP_PUSH: return "push(retry)"; case OP_TRYPUSH: return "try_push"; case OP_SENDQ: return "send<CPUPause>";
    case OP_PUSHB: return "push_batch(" + std::to_string(r[1]) + ")"; case OP_CH_SEND: return "ch.send"; case OP_CH_RECV: return "ch.recv";
    }
    return "op" + std::to_string(r[0]);
}
}  // namespace

int main(int argc, char** argv) {
    vf::Harness h;
    h.prop = "C07";
    h.gen = gen_case;
    h.run = run_case;
    h.desc = [](const Case& c) {
        std::ostringstream o;
        if (c.cfg[5] == 0) o << "queue kind=" << c.cfg[6] << " (0 mpmc,1 batch,2 spsc) size-code=" << c.cfg[7] << " producers=" << c.cfg[8] << " consumers=" << c.cfg[4] - c.cfg[8] << " consumer batch=" << c.cfg[9] << "\n";
        else o << "channel kind=" << c.cfg[6] << " (1 ring N=2, 2 ring N=4, 3 flex cap " << c.cfg[8] << ") yield_turn=" << c.cfg[7] << "\n";
        return o.str() + describe_common(c, opname);
    };
    h.fork_per_case = true;
    h.persistent_child = true;     // a child serves cases until one ends abnormally (finish_now), then it is replaced
    return vf::pbt_main(argc, argv, h);
}
