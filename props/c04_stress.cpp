// C04 (part "parallel") — sleeps and interrupts on real vCPUs: sleepers (finite and zero durations, yields) on 2..6 OS
// threads, interrupters on the same and on other vCPUs.  Here a deadline expires and a cross-vCPU interrupt arrives at
// truly arbitrary instants with respect to each other.  Logical oracle: a sleep that returns 0 lasted at least its
// duration on photon::now; a sleep that returns -1 carries an errno that some interrupter sent to that thread, every
// interrupt carries its own errno value and no value is ever reported by two sleeps (one interrupt ends at most one
// sleep); yields return 0 or such an errno, also at most once.  Wall-clock element: no sleep returns for 30 s.
#include "pbt.h"
#include <photon/photon.h>
#include <photon/thread/thread.h>
#include <photon/thread/thread11.h>
#include <photon/common/alog.h>
#include <atomic>
#include <mutex>
#include <set>
#include <sstream>
#include <thread>

using vf::Case;
using vf::Outcome;

namespace {

// cfg: [n vcpus, rounds]
// role: [vcpu, kind (0 sleeper, 1 interrupter), ...]; sleeper: t<i> rows [op (0 usleep d, 1 yield), d]; interrupter: [.., target sleeper index, pause kind (0 yield,1 usleep,2 burn), arg]

struct Sleeper { photon::thread* th = nullptr; std::atomic<bool> alive{false}; std::mutex m; std::set<int> seen; std::atomic<long> sent{0}, cut{0}; };

struct Shared {
    std::mutex mu; std::string first_violation;
    std::atomic<long> progress{0}, next_errno{100000}, cuts{0}, full{0};
    std::atomic<int> sleepers_left{0}, interrupters_left{0};
    std::vector<std::unique_ptr<Sleeper>> sl;
    void violation(const std::string& m) { std::lock_guard<std::mutex> g(mu); if (first_violation.empty()) first_violation = m; }
};

void burn(long n) { volatile long x = 0; for (long i = 0; i < n * 20; i++) x += i; }

Outcome run_case(const Case& c) {
    static bool once = (set_log_output_level(ALOG_AUDIT + 1), set_log_output(log_output_null), true);
    (void)once;
    long nv = std::max<long>(1, c.cfg.at(0)), rounds = c.cfg.at(1);
    Shared S;
    auto& roles = c.S("role");
    std::vector<int> sleeper_index(roles.size(), -1);
    for (size_t i = 0; i < roles.size(); i++) if (roles[i].at(1) == 0) { sleeper_index[i] = (int)S.sl.size(); S.sl.emplace_back(new Sleeper); }
    if (S.sl.empty()) { Outcome o; o.status = Outcome::INCONCLUSIVE; o.msg = "no sleeper"; return o; }
    S.sleepers_left = (int)S.sl.size();
    for (auto& r : roles) if (r.at(1) != 0) S.interrupters_left++;
    std::atomic<bool> case_done{false};
    std::thread watchdog([&]() {
        long last = -1; int still = 0;
        while (!case_done && still < 3000) { std::this_thread::sleep_for(std::chrono::milliseconds(10)); long p = S.progress.load(); if (p != last) { last = p; still = 0; } else still++; }
        if (case_done) return;
        vf::finish_now(Outcome::violation("no sleep returned anywhere for 30 s (the longest sleep is 20 ms): " + std::to_string(S.sleepers_left.load()) + " sleeper(s) still blocked" +
                                          (S.first_violation.empty() ? "" : "; earlier: " + S.first_violation)));
    });
    std::atomic<int> ready{0};
    std::vector<std::thread> ths;
    for (long v = 0; v < nv; v++) ths.emplace_back([&, v]() {
        if (photon::init(photon::INIT_EVENT_EPOLL, photon::INIT_IO_NONE) != 0) { S.violation("photon::init failed"); ready++; return; }
        ready++;
        while (ready.load() < nv) std::this_thread::yield();
        std::vector<photon::join_handle*> jh;
        for (size_t i = 0; i < roles.size(); i++) {
            if (roles[i].at(0) % nv != v) continue;
            const std::vector<long>* r = &roles[i];
            if (r->at(1) == 0) {
                Sleeper* me = S.sl[(size_t)sleeper_index[i]].get();
                const auto* prog = &c.S("t" + std::to_string(i)); int id = (int)i;
                jh.push_back(photon::thread_enable_join(photon::thread_create11([&, me, prog, id]() {
                    me->th = photon::CURRENT; me->alive = true;
                    auto account = [&](int en, const char* what) {
                        me->cut++; S.cuts++;
                        std::lock_guard<std::mutex> g(me->m);
                        if (en < 100000 || en >= S.next_errno.load()) S.violation(std::string(what) + " of thread " + std::to_string(id) + " failed with errno " + std::to_string(en) + ", which no interrupter sent");
                        else if (!me->seen.insert(en).second) S.violation(std::string(what) + " of thread " + std::to_string(id) + " was cut short by interrupt #" + std::to_string(en - 100000) + ", which had already ended an earlier sleep of that thread");
                        if (me->cut.load() > me->sent.load()) S.violation("thread " + std::to_string(id) + " has been cut short " + std::to_string(me->cut.load()) + " times but only " + std::to_string(me->sent.load()) + " interrupts were sent to it");
                    };
                    for (long k = 0; k < rounds && S.first_violation.empty(); k++)
                        for (auto& op : *prog) {
                            if (op.size() < 2) continue;
                            if (op[0] == 1) { int e = photon::thread_yield(); if (e) account(e, "a yield"); S.progress++; continue; }
                            uint64_t d = (uint64_t)op[1], t0 = photon::now;
                            errno = 0;
                            int ret = photon::thread_usleep(d);
                            int en = errno; uint64_t t1 = photon::now;
                            S.progress++;
                            if (ret == 0) { S.full++; if (t1 - t0 + 1 < d) S.violation("thread_usleep(" + std::to_string(d) + ") of thread " + std::to_string(id) + " returned 0 after " + std::to_string(t1 - t0) + " us"); }
                            else if (ret == -1) account(en, "a sleep");
                            else S.violation("thread_usleep returned " + std::to_string(ret));
                        }
                    me->alive = false;
                    S.sleepers_left--;
                    // a late interrupt may still be on its way: stay around (sleeping in small steps) until every interrupter is done
                    while (S.interrupters_left.load() > 0) photon::thread_usleep(500);
                })));
            } else {
                long target = r->at(2), pk = r->at(3), parg = r->at(4);
                jh.push_back(photon::thread_enable_join(photon::thread_create11([&, target, pk, parg]() {
                    Sleeper* t = S.sl[(size_t)target % S.sl.size()].get();
                    while (!t->th && S.sleepers_left.load() > 0) photon::thread_yield();
                    for (long k = 0; k < rounds * 2 && S.first_violation.empty() && t->alive.load(); k++) {
                        int en = (int)S.next_errno.fetch_add(1);
                        t->sent++;
                        if (t->alive.load()) photon::thread_interrupt(t->th, en);
                        if (pk == 0) photon::thread_yield(); else if (pk == 1) photon::thread_usleep((uint64_t)parg); else burn(parg);
                    }
                    S.interrupters_left--;
                })));
            }
        }
        for (auto j : jh) photon::thread_join(j);
        photon::fini();
    });
    for (auto& t : ths) t.join();
    case_done = true; watchdog.join();
    if (!S.first_violation.empty()) return Outcome::violation(S.first_violation);
    Outcome out;
    out.nontrivial = S.cuts.load() > 0 && S.full.load() > 0;
    if (S.cuts.load()) out.label("sleeps_cut_short");
    if (S.full.load()) out.label("sleeps_completed");
    out.label("vcpus:" + std::to_string(nv));
    return out;
}

rc::Gen<Case> gen_case(const vf::Options&) {
    return rc::gen::exec([]() {
        Case c;
        long nv = *rc::gen::weightedOneOf<long>({{3, vf::range(2, 3)}, {2, vf::range(4, 6)}});
        c.cfg = {nv, *vf::oneof<long>({20, 100, 400})};
        long ns = *vf::range(1, 4), ni = *vf::range(1, 4);
        for (long i = 0; i < ns; i++) {
            c.S("role").push_back({*vf::range(0, nv - 1), 0});
            long n = *vf::range(1, 4);
            std::vector<std::vector<long>> prog;
            for (long k = 0; k < n; k++) {
                long op = *rc::gen::weightedOneOf<long>({{5, rc::gen::just<long>(0)}, {1, rc::gen::just<long>(1)}});
                prog.push_back({op, *rc::gen::weightedOneOf<long>({{1, rc::gen::just<long>(0)}, {3, vf::range(1, 50)}, {3, vf::range(51, 1000)}, {1, vf::range(1001, 20000)}})});
            }
            c.S("t" + std::to_string(i)) = prog;
        }
        for (long i = 0; i < ni; i++) c.S("role").push_back({*vf::range(0, nv - 1), 1, *vf::range(0, ns - 1), *vf::range(0, 2), *vf::range(1, 300)});
        return c;
    });
}

std::string describe(const Case& c) {
    std::ostringstream o;
    o << "vcpus(os threads)=" << c.cfg[0] << " rounds=" << c.cfg[1] << "\n";
    size_t si = 0;
    for (size_t i = 0; i < c.S("role").size(); i++) {
        auto& r = c.S("role")[i];
        if (r[1] == 0) { o << " sleeper#" << si++ << "@vcpu" << r[0] % c.cfg[0] << ":"; for (auto& op : c.S("t" + std::to_string(i))) if (op.size() >= 2) { if (op[0] == 1) o << " yield;"; else o << " usleep(" << op[1] << ");"; } o << "\n"; }
        else o << " interrupter@vcpu" << r[0] % c.cfg[0] << " -> sleeper#" << r[2] << " pause" << r[3] << "(" << r[4] << ")\n";
    }
    return o.str();
}
}  // namespace

int main(int argc, char** argv) {
    vf::Harness h;
    h.prop = "C04";
    h.gen = gen_case;
    h.run = run_case;
    h.desc = describe;
    h.fork_per_case = true;
    h.persistent_child = true;
    return vf::pbt_main(argc, argv, h);
}
