#!/bin/bash
# confirm_seed.sh <PROP> <k>   — confirm a seeded change produced by a sub-agent, in ITS scratch worktree
#   /tmp/mut/<PROP> (with _build), deliverables in /tmp/mut/out/<PROP>/{patch,demo,notes}<k>.*
# Confirms: (1) applies + builds, (2) demo fails with the patch, (3) existing suite still passes
# (only the 7 known-failing ctest entries fail; others are re-run alone once), (4) demo passes without.
# Writes /verif/seeded/<PROP>-<k>/{patch.diff,demo*,notes.md,confirm.log,meta.json}
set -u
P=$1; K=$2
WT=/tmp/mut/$P; OUT=/tmp/mut/out/$P
DST=/verif/seeded/$P-$K
mkdir -p $DST
LOG=$DST/confirm.log
: > $LOG
KNOWN="test-checksum test-throttle test-iouring test-socket test-ipv6 client_function_test test-rpc-message"
cd $WT || exit 2
git checkout -q -- . 2>>$LOG
if ! git apply --check $OUT/patch$K.diff 2>>$LOG; then echo "RESULT patch does not apply" | tee -a $LOG; exit 1; fi
git apply $OUT/patch$K.diff
echo "== build with patch" >> $LOG
if ! ninja -C _build -j12 >> $LOG.build 2>&1; then echo "RESULT build failed" | tee -a $LOG; git checkout -q -- .; exit 1; fi
echo "== demo with patch" >> $LOG
( cd $OUT && W=$WT timeout 900 bash ./demo$K.sh ) > $DST/demo.patched.out 2>&1; DEMO_P=$?
echo "demo with patch: exit $DEMO_P" >> $LOG
echo "== ctest with patch" >> $LOG
flock /tmp/mut/ctest.lock ctest --test-dir _build -j8 --timeout 900 > $DST/ctest.patched.out 2>&1
FAILED=$(grep -E "^\s+[0-9]+ - " $DST/ctest.patched.out | sed -E 's/^\s+[0-9]+ - ([^ ]+).*/\1/')
EXTRA=""
for t in $FAILED; do
  case " $KNOWN " in *" $t "*) ;; *)
    # timing-sensitive under load: re-run alone, twice at most
    ok=0
    for i in 1 2; do if flock /tmp/mut/ctest.lock ctest --test-dir _build -R "^$t\$" --timeout 900 >> $LOG 2>&1; then ok=1; break; fi; done
    [ $ok = 1 ] || EXTRA="$EXTRA $t" ;;
  esac
done
echo "ctest failed entries: $(echo $FAILED | tr '\n' ' ')" >> $LOG
echo "ctest failures beyond the known 7 after solo re-run: [$EXTRA ]" >> $LOG
git checkout -q -- .
echo "== rebuild without patch" >> $LOG
ninja -C _build -j12 >> $LOG.build 2>&1
( cd $OUT && W=$WT timeout 900 bash ./demo$K.sh ) > $DST/demo.clean.out 2>&1; DEMO_C=$?
echo "demo without patch: exit $DEMO_C" >> $LOG
cp $OUT/patch$K.diff $DST/patch.diff
cp -r $OUT/demo$K* $DST/ 2>/dev/null
[ -f $OUT/notes$K.md ] && cp $OUT/notes$K.md $DST/notes.md
for extra in recfs.h; do [ -f $OUT/$extra ] && cp $OUT/$extra $DST/; done
rm -f $LOG.build
VERDICT=confirmed
[ $DEMO_P -ne 0 ] || VERDICT="rejected: demo passes with the patch"
[ $DEMO_C -eq 0 ] || VERDICT="rejected: demo fails without the patch"
[ -z "$EXTRA" ] || VERDICT="rejected: existing tests fail:$EXTRA"
python3 - <<EOF
import json
json.dump({"property":"$P","seed":"$P-$K","verdict":"$VERDICT","demo_exit_with_patch":$DEMO_P,"demo_exit_without_patch":$DEMO_C,
 "ctest_failed_entries":"""$FAILED""".split(),"ctest_extra_failures_after_solo_rerun":"""$EXTRA""".split(),
 "what_i_ran":"tools/confirm_seed.sh $P $K in /tmp/mut/$P: git apply; ninja; demo$K.sh (must fail); ctest -j8 (only the 7 sandbox-known failures allowed, others re-run alone); git checkout; ninja; demo$K.sh (must pass)",
 "needs_to_manifest":"see notes.md","caught_by":None}, open("$DST/meta.json","w"), indent=1)
EOF
echo "RESULT $P-$K $VERDICT" | tee -a $LOG
