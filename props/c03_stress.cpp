// C03 (part "parallel") — condition variable on real vCPUs: waiters (timed and untimed) and notifiers (with and
// without the user lock) on 2..6 OS threads.  Timeouts fire asynchronously with respect to notifiers on other vCPUs
// here.  Logical oracle: the number of waits that returned 0 equals the number of waiters the notify calls reported
// (notify_one: 0 or 1, notify_all: its return value); wait returns -1 only with ETIMEDOUT, only for timed waits and
// not before the deadline (photon::now); wait returns holding the lock (a holder word is checked and set under it).
// A drainer keeps calling notify_all until every waiter has finished.  Wall-clock element: no wait returns for 30 s.
#include "pbt.h"
#include <photon/photon.h>
#include <photon/thread/thread.h>
#include <photon/thread/thread11.h>
#include <photon/common/alog.h>
#include <atomic>
#include <mutex>
#include <sstream>
#include <thread>

using vf::Case;
using vf::Outcome;

namespace {

// cfg: [n vcpus, lock kind (0 mutex, 1 spinlock), rounds]
// role: one row per photon thread: [vcpu, kind (0 waiter, 1 notifier), timeout us (-1 untimed) | notify kind (0 one, 1 all), with lock (notifier), pause (0 none 1 yield 2 burn), arg]

struct Shared {
    std::mutex mu; std::string first_violation;
    std::atomic<long> progress{0}, notified{0}, woken{0}, timed_out{0};
    std::atomic<int> waiters_left{0}, notifiers_left{0};
    std::atomic<int> holder{-1};
    photon::mutex mtx; photon::spinlock spl; photon::condition_variable cv;
    bool use_spin = false;
    void violation(const std::string& m) { std::lock_guard<std::mutex> g(mu); if (first_violation.empty()) first_violation = m; }
    void lock(int id) { if (use_spin) spl.lock(); else mtx.lock(); int prev = holder.exchange(id); if (prev != -1) violation("thread " + std::to_string(id) + " acquired the user lock while thread " + std::to_string(prev) + " holds it"); }
    void unlock(int id) { int prev = holder.exchange(-1); if (prev != id) violation("user lock released by " + std::to_string(id) + " but held by " + std::to_string(prev)); if (use_spin) spl.unlock(); else mtx.unlock(); }
};

void burn(long n) { volatile long x = 0; for (long i = 0; i < n * 20; i++) x += i; }

Outcome run_case(const Case& c) {
    static bool once = (set_log_output_level(ALOG_AUDIT + 1), set_log_output(log_output_null), true);
    (void)once;
    long nv = std::max<long>(1, c.cfg.at(0)), rounds = c.cfg.at(2);
    Shared S; S.use_spin = c.cfg.at(1) != 0;
    auto& roles = c.S("role");
    int nw = 0, nn = 0;
    for (auto& r : roles) if (r.at(1) == 0) nw++; else nn++;
    if (!nw) { Outcome o; o.status = Outcome::INCONCLUSIVE; o.msg = "no waiter"; return o; }
    S.waiters_left = nw; S.notifiers_left = nn;
    std::atomic<bool> case_done{false};
    std::thread watchdog([&]() {
        long last = -1; int still = 0;
        while (!case_done && still < 3000) { std::this_thread::sleep_for(std::chrono::milliseconds(10)); long p = S.progress.load(); if (p != last) { last = p; still = 0; } else still++; }
        if (case_done) return;
        vf::finish_now(Outcome::violation("no wait returned for 30 s although notify_all is issued every millisecond: " + std::to_string(S.waiters_left.load()) + " waiter(s) still blocked" +
                                          (S.first_violation.empty() ? "" : "; earlier: " + S.first_violation)));
    });
    std::atomic<int> ready{0};
    std::vector<std::thread> ths;
    for (long v = 0; v < nv; v++) ths.emplace_back([&, v]() {
        if (photon::init(photon::INIT_EVENT_EPOLL, photon::INIT_IO_NONE) != 0) { S.violation("photon::init failed"); ready++; return; }
        ready++;
        while (ready.load() < nv) std::this_thread::yield();
        std::vector<photon::join_handle*> jh;
        for (size_t i = 0; i < roles.size(); i++) {
            if (roles[i].at(0) % nv != v) continue;
            const std::vector<long>* r = &roles[i]; int id = (int)i;
            jh.push_back(photon::thread_enable_join(photon::thread_create11([&, r, id]() {
                long pause = r->at(4), parg = r->at(5);
                auto between = [&]() { if (pause == 1) photon::thread_yield(); else if (pause == 2) burn(parg); };
                if (r->at(1) == 0) {
                    long tmo = r->at(2);
                    for (long k = 0; k < rounds && S.first_violation.empty(); k++) {
                        S.lock(id);
                        S.holder = -1;                       // the wait releases the lock ...
                        uint64_t t0 = photon::now;
                        photon::Timeout to = tmo < 0 ? photon::Timeout() : photon::Timeout((uint64_t)tmo);
                        int ret = S.use_spin ? S.cv.wait(&S.spl, to) : S.cv.wait(&S.mtx, to);
                        int en = errno;
                        int prev = S.holder.exchange(id);    // ... and returns holding it again
                        if (prev != -1) S.violation("cv.wait returned to thread " + std::to_string(id) + " while thread " + std::to_string(prev) + " holds the user lock");
                        S.progress++;
                        if (ret == 0) S.woken++;
                        else {
                            S.timed_out++;
                            if (ret != -1 || en != ETIMEDOUT) S.violation("cv.wait returned " + std::to_string(ret) + " with errno " + std::to_string(en));
                            else if (tmo < 0) S.violation("an untimed cv.wait reported ETIMEDOUT");
                            else if (photon::now - t0 + 2 < (uint64_t)tmo) S.violation("cv.wait reported ETIMEDOUT after " + std::to_string(photon::now - t0) + " us, its timeout is " + std::to_string(tmo));
                        }
                        S.unlock(id);
                        between();
                    }
                    S.waiters_left--;
                } else {
                    long all = r->at(2), locked = r->at(3);
                    for (long k = 0; k < rounds && S.first_violation.empty() && S.waiters_left.load() > 0; k++) {
                        if (locked) S.lock(id);
                        if (all) { int n = S.cv.notify_all(); if (n < 0) S.violation("notify_all returned " + std::to_string(n)); else S.notified += n; }
                        else if (S.cv.notify_one()) S.notified++;
                        if (locked) S.unlock(id);
                        between();
                        if (pause == 0) photon::thread_yield();
                    }
                    S.notifiers_left--;
                }
            })));
        }
        if (v == 0) {
            // drainer: once the notifiers are done, keep releasing whoever still waits (untimed waiters would stay for ever)
            jh.push_back(photon::thread_enable_join(photon::thread_create11([&]() {
                while (S.waiters_left.load() > 0 && S.first_violation.empty()) {
                    if (S.notifiers_left.load() == 0) { int n = S.cv.notify_all(); if (n > 0) S.notified += n; }
                    photon::thread_usleep(1000);
                }
            })));
        }
        for (auto j : jh) photon::thread_join(j);
        photon::fini();
    });
    for (auto& t : ths) t.join();
    case_done = true; watchdog.join();
    if (S.first_violation.empty() && S.woken.load() != S.notified.load())
        S.violation("the notify calls reported " + std::to_string(S.notified.load()) + " woken waiters in total, but " + std::to_string(S.woken.load()) + " waits returned 0");
    if (!S.first_violation.empty()) return Outcome::violation(S.first_violation);
    Outcome out;
    out.nontrivial = S.timed_out.load() > 0 && S.woken.load() > 0;
    if (S.timed_out.load()) out.label("waits_timed_out");
    if (S.woken.load()) out.label("waits_notified");
    out.label(S.use_spin ? "lock:spinlock" : "lock:mutex");
    out.label("vcpus:" + std::to_string(nv));
    return out;
}

rc::Gen<Case> gen_case(const vf::Options&) {
    return rc::gen::exec([]() {
        Case c;
        long nv = *rc::gen::weightedOneOf<long>({{3, vf::range(2, 3)}, {2, vf::range(4, 6)}});
        c.cfg = {nv, *vf::range(0, 1), *vf::oneof<long>({10, 60, 300})};
        long nw = *vf::range(1, 5), nn = *vf::range(1, 3);
        for (long i = 0; i < nw; i++)
            c.S("role").push_back({*vf::range(0, nv - 1), 0, *rc::gen::weightedOneOf<long>({{2, rc::gen::just<long>(-1)}, {1, rc::gen::just<long>(0)}, {3, vf::range(1, 60)}, {3, vf::range(61, 1500)}}), 0,
                                   *rc::gen::weightedOneOf<long>({{3, rc::gen::just<long>(0)}, {2, rc::gen::just<long>(1)}, {2, rc::gen::just<long>(2)}}), *vf::range(1, 60)});
        for (long i = 0; i < nn; i++)
            c.S("role").push_back({*vf::range(0, nv - 1), 1, *rc::gen::weightedOneOf<long>({{3, rc::gen::just<long>(0)}, {1, rc::gen::just<long>(1)}}), *rc::gen::weightedOneOf<long>({{2, rc::gen::just<long>(1)}, {2, rc::gen::just<long>(0)}}),
                                   *rc::gen::weightedOneOf<long>({{2, rc::gen::just<long>(0)}, {2, rc::gen::just<long>(1)}, {3, rc::gen::just<long>(2)}}), *vf::range(1, 200)});
        return c;
    });
}

std::string describe(const Case& c) {
    std::ostringstream o;
    o << "user lock=" << (c.cfg[1] ? "spinlock" : "mutex") << " vcpus(os threads)=" << c.cfg[0] << " rounds=" << c.cfg[2] << "\n";
    for (auto& r : c.S("role")) {
        if (r[1] == 0) o << " waiter@vcpu" << r[0] % c.cfg[0] << " wait(" << (r[2] < 0 ? std::string("untimed") : std::to_string(r[2]) + "us") << ") pause=" << r[4] << "(" << r[5] << ")\n";
        else o << " notifier@vcpu" << r[0] % c.cfg[0] << " " << (r[2] ? "notify_all" : "notify_one") << (r[3] ? " holding the lock" : " without the lock") << " pause=" << r[4] << "(" << r[5] << ")\n";
    }
    return o.str();
}
}  // namespace

int main(int argc, char** argv) {
    vf::Harness h;
    h.prop = "C03";
    h.gen = gen_case;
    h.run = run_case;
    h.desc = describe;
    h.fork_per_case = true;
    h.persistent_child = true;
    return vf::pbt_main(argc, argv, h);
}
