// C19 — ObjectCache: one live object per key, never destroyed while borrowed.
#include "lab_common.h"
#include <photon/common/expirecontainer.h>

using namespace labc;

namespace {

enum { OP_USE = 10 };     // {acquire(key, ctor kind, cooldown); hold; release(recycle, destroy)}

struct H;
H* g_h = nullptr;

struct Obj {
    int key; long serial; int alive = 1;
    Obj(int k, long s) : key(k), serial(s) {}
    ~Obj();
};

struct H {
    Common C;
    using Cache = ObjectCache<int, Obj*>;
    std::unique_ptr<Cache> cache;
    uint64_t lifespan = 20000, cycle = 1000;
    struct Holder { int actor; Obj* ptr; };
    std::map<int, std::vector<Holder>> holders;         // key -> current holders
    std::map<int, int> in_ctor;                          // key -> constructors running
    std::map<Obj*, uint64_t> last_release;               // per OBJECT (an expired object may still await deletion when a new one of its key is already in use)
    std::map<int, uint64_t> last_failure;                // photon::now
    std::map<int, int> fail_in_flight;                   // failing constructions whose acquire has not returned yet
    std::map<int, int> recycling;                        // key -> recycling releases in progress
    std::set<Obj*> live;
    long serial = 0, constructed = 0, destroyed = 0, expired = 0;
    std::set<std::string> labels;
    bool nt = false;

    void on_destroy(Obj* o) {
        auto& ctl = C.L.ctl;
        if (getenv("C19_DEBUG")) fprintf(stderr, "[c19] t=%lu destroy obj %p key %d serial %ld recycling=%d\n", (unsigned long)photon::now, (void*)o, o->key, o->serial, recycling[o->key]);
        if (!live.count(o)) ctl.violation("an object was destroyed twice (key " + std::to_string(o->key) + ")");
        live.erase(o);
        destroyed++;
        for (auto& h : holders[o->key]) if (h.ptr == o)
            ctl.violation("object of key " + std::to_string(o->key) + " destroyed while actor" + std::to_string(h.actor) + " still holds a reference");
        if (!recycling[o->key]) {
            // not a recycling release: this is the expiry path
            expired++;
            auto it = last_release.find(o);
            if (it != last_release.end() && photon::now + 300 < it->second + lifespan)
                ctl.violation("object of key " + std::to_string(o->key) + " expired " + std::to_string(photon::now - it->second) + " us after its last release; lifespan is " + std::to_string(lifespan));
            labels.insert("expired_by_timer_or_sweep");
        }
        last_release.erase(o);
    }
    void run_op(int id, const std::vector<long>& r) {
        auto& ctl = C.L.ctl;
        int key = (int)r.at(1);
        long ctor_kind = r.at(2);           // 0 ok, 1 fail, 2 slow-ok (yields inside), 3 slow-ok (sleeps inside)
        long cooldown = r.at(3);
        long hold = r.at(4), hold_arg = r.at(5);
        bool recycle = r.at(6) != 0, destroy = r.at(7) != 0;
        C.st[id].phase = "acquire"; C.st[id].phase_arg = key;
        bool overlapped = !holders[key].empty() || in_ctor[key] > 0;
        uint64_t fail_before = last_failure.count(key) ? last_failure[key] : 0;
        bool ctor_ran = false, my_fail = false;
        uint64_t t_acq = photon::now;       // the library decides about the cooldown somewhere between this moment and the return
        Obj* p = cache->acquire(key, [&]() -> Obj* {
            ctor_ran = true;
            if (++in_ctor[key] > 1) ctl.violation("two constructors running at once for key " + std::to_string(key));
            if (!holders[key].empty()) ctl.violation("constructor started for key " + std::to_string(key) + " while a live object of that key is held");
            if (ctor_kind == 2) photon::thread_yield();
            else if (ctor_kind == 3) photon::thread_usleep(120);
            Obj* o = nullptr;
            if (ctor_kind != 1) { o = new Obj(key, ++serial); live.insert(o); constructed++; }
            else { last_failure[key] = photon::now; fail_in_flight[key]++; my_fail = true; }
            in_ctor[key]--;
            return o;
        }, (uint64_t)cooldown);
        // the library stamps a failure after the constructor returned; until the failing acquire itself has returned here the
        // failure counts as "just happened" (another vCPU or a clock jump can sit between the two time stamps)
        if (my_fail) { fail_in_flight[key]--; last_failure[key] = photon::now; }
        if (!p) {
            if (ctor_ran && ctor_kind != 1) ctl.violation("acquire returned null although its constructor succeeded");
            if (!ctor_ran) {
                // legal only inside the failure cooldown of an earlier failed construction, or when another
                // acquirer's constructor failed while we were waiting for it
                bool recent_failure = fail_in_flight[key] > 0 || (last_failure.count(key) && (cooldown > 0 ? t_acq <= last_failure[key] + (uint64_t)cooldown + 300 : last_failure[key] > fail_before || last_failure[key] + 300 >= t_acq));
                if (!recent_failure) ctl.violation("acquire returned null without running its constructor and without a recent failed construction (key " + std::to_string(key) + ")");
                labels.insert("null_during_failure_cooldown");
            } else labels.insert("ctor_failed_reported");
            return;
        }
        if (getenv("C19_DEBUG")) fprintf(stderr, "[c19] t=%lu actor%d acquired key %d obj %p\n", (unsigned long)photon::now, id, key, (void*)p);
        if (!live.count(p)) ctl.violation("acquire returned a pointer to a destroyed object");
        if (p->key != key) ctl.violation("acquire returned an object of another key");
        for (auto& h : holders[key]) if (h.ptr != p) ctl.violation("two different live objects for key " + std::to_string(key) + " are held at once");
        if (!holders[key].empty()) { nt = true; labels.insert("shared_by_two_holders"); }
        if (overlapped) { nt = true; labels.insert("acquirers_overlapped_on_key"); }
        holders[key].push_back({id, p});
        C.st[id].phase = "holding";
        for (int i = 0; i < 2; i++) {
            if (p->alive != 1 || !live.count(p)) ctl.violation("held object is no longer alive");
            if (hold == 1) photon::thread_yield(); else if (hold == 2) photon::thread_usleep((uint64_t)hold_arg);
        }
        if (p->alive != 1 || !live.count(p)) ctl.violation("held object is no longer alive");
        // release
        C.st[id].phase = recycle ? "release(recycle)" : "release";
        auto& hv = holders[key];
        for (size_t i = 0; i < hv.size(); i++) if (hv[i].actor == id) { hv.erase(hv.begin() + i); break; }
        bool others = !hv.empty();
        // The idle period of an object starts inside the release that drops the last reference, i.e. not before the
        // start of any release call on that key: the start time of the latest one is a sound lower bound (the time
        // after the call returns is not - another vCPU or a clock jump can sit in between).
        { uint64_t nw = photon::now; if (nw > last_release[p]) last_release[p] = nw; }
        if (recycle) recycling[key]++;
        if (getenv("C19_DEBUG")) fprintf(stderr, "[c19] t=%lu actor%d release key %d obj %p recycle=%d destroy=%d\n", (unsigned long)photon::now, id, key, (void*)p, (int)recycle, (int)destroy);
        Obj* back = cache->release(key, recycle, destroy);
        if (getenv("C19_DEBUG")) fprintf(stderr, "[c19] t=%lu actor%d release returned\n", (unsigned long)photon::now, id);
        if (recycle) {
            recycling[key]--;
            // a recycling release returns only after every other holder has released
            // (by now another actor may already hold a NEW object of this key: the item left the index before the call returned)
            if (back) for (auto& h2 : holders[key]) if (h2.ptr == back) ctl.violation("recycling release of key " + std::to_string(key) + " handed the object over while actor" + std::to_string(h2.actor) + " still holds it");
            if (others) { nt = true; labels.insert("recycle_waited_for_other_holder"); }
            if (back) {
                if (destroy) ctl.violation("release(recycle, destroy=true) returned an object");
                if (!live.count(back)) ctl.violation("recycler was handed a destroyed object");
                if (back != p) ctl.violation("recycler was handed a different object");
                labels.insert("recycled_object_handed_over");
                recycling[key]++; delete back; recycling[key]--;      // ownership moved to the caller
            }
        } else if (back) ctl.violation("plain release returned an object");
    }
};

Obj::~Obj() { alive = 0; g_h->on_destroy(this); }

Outcome run_case(const Case& c) {
    H h; g_h = &h;
    h.lifespan = (uint64_t)c.cfg.at(5); h.cycle = (uint64_t)c.cfg.at(6);
    h.C.horizon_extra = 3 * h.lifespan;
    h.C.setup(c, [&](int id, const std::vector<long>& r) { h.run_op(id, r); });
    auto& ctl = h.C.L.ctl;
    ctl.max_steps = 600000;
    h.C.L.vcpu_setup = [&](int v) { if (v == 0) h.cache.reset(new H::Cache(h.lifespan, h.cycle)); else while (!h.cache) photon::thread_usleep(10); };
    h.C.L.vcpu_teardown = [&](int v) {
        if (v != 0) return;
        // let the expiry timer run past the lifespan once, then destroy the cache: every object must be gone
        photon::thread_usleep(h.lifespan + 2 * std::max<uint64_t>(h.cycle, 1000) + 500);
        for (auto& kv : h.holders) if (!kv.second.empty()) ctl.violation("holder table not empty at the end");
        for (auto& kv : h.recycling) kv.second++;           // destruction by ~ObjectCache is not an expiry
        h.cache.reset();
        if (!h.live.empty()) ctl.violation(std::to_string(h.live.size()) + " object(s) still alive after the cache was destroyed");
    };
    ctl.on_quiescence = [&]() { ctl.violation("quiescence with actors still blocked:" + h.C.blocked_report()); };
    h.C.L.run();
    Outcome& out = ctl.out;
    out.nontrivial = h.nt || h.expired > 0;
    for (auto& l : h.labels) out.label(l);
    h.C.L.stats_labels(out);
    return out;
}

rc::Gen<Case> gen_case(const vf::Options&) {
    return rc::gen::exec([]() {
        Case c;
        long na = gen_common(c, 2, 5, 0);
        long lifespan = *vf::oneof<long>({2000, 5000, 20000});
        c.cfg.push_back(lifespan);
        c.cfg.push_back(*vf::oneof<long>({1000, 3000}));
        long nkeys = *vf::range(1, 3);
        for (long i = 0; i < na; i++) {
            long n = *vf::range(1, 4);
            auto& prog = c.S("a" + std::to_string(i));
            for (long k = 0; k < n; k++) {
                long kind = *rc::gen::weightedOneOf<long>({{7, rc::gen::just<long>(OP_USE)}, {1, rc::gen::just<long>(OP_YIELD)}, {2, rc::gen::just<long>(OP_SLEEP)}});
                if (kind == OP_USE) {
                    long ctor = *rc::gen::weightedOneOf<long>({{5, rc::gen::just<long>(0)}, {2, rc::gen::just<long>(1)}, {2, rc::gen::just<long>(2)}, {2, rc::gen::just<long>(3)}});
                    long cooldown = *rc::gen::weightedOneOf<long>({{3, rc::gen::just<long>(0)}, {1, vf::range(100, 3000)}});
                    long recycle = *rc::gen::weightedOneOf<long>({{3, rc::gen::just<long>(0)}, {1, rc::gen::just<long>(1)}});
                    prog.push_back({kind, *vf::range(0, nkeys - 1), ctor, cooldown, *vf::range(0, 2), *gen_duration(), recycle, *vf::range(0, 1)});
                } else if (kind == OP_SLEEP) prog.push_back({kind, *rc::gen::weightedOneOf<long>({{3, gen_duration()}, {2, vf::range(1000, 30000)}})});
                else prog.push_back({kind});
            }
        }
        c.S("sched") = *gen_schedule(40);
        return c;
    });
}

std::string opname(const std::vector<long>& r) {
    if (r[0] != OP_USE) return "op" + std::to_string(r[0]);
    std::ostringstream o;
    static const char* ck[] = {"ok", "fail", "slow-yield", "slow-sleep"};
    o << "{acquire(key" << r[1] << ", ctor " << ck[r[2] % 4] << ", cooldown " << r[3] << "); hold" << r[4] << "(" << r[5] << "); release(" << (r[6] ? "recycle" : "plain") << (r[7] ? ",destroy" : ",keep") << ")}";
    return o.str();
}
}  // namespace

int main(int argc, char** argv) {
    vf::Harness h;
    h.prop = "C19";
    h.gen = gen_case;
    h.run = run_case;
    h.desc = [](const Case& c) { return "lifespan=" + std::to_string(c.cfg[5]) + " timer_cycle=" + std::to_string(c.cfg[6]) + "\n" + describe_common(c, opname); };
    h.fork_per_case = true;
    h.persistent_child = true;     // a child serves cases until one ends abnormally (finish_now), then it is replaced
    return vf::pbt_main(argc, argv, h);
}
